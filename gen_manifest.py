#!/venv/bin/python
"""Regenerates MANIFEST.json from checks/*.py (each module carries MANIFEST_TEXT etc.)."""
import importlib, json, os, sys
HERE = os.path.dirname(os.path.abspath(__file__))
sys.path.insert(0, HERE)
BASE = "cd /repo && /venv/bin/python -m pytest -ra -q -p no:cacheprovider --timeout=900 --continue-on-collection-errors"
props = [json.loads(l) for l in open(os.path.join(HERE, "properties.jsonl"))]
checks, na = [], []
for p in props:
    pid = p["id"]
    mods = [n[:-3] for n in sorted(os.listdir(os.path.join(HERE, "checks")))
            if n.lower().startswith(pid.lower() + "_") and n.endswith(".py")]
    if not mods:
        na.append({"property_id": pid, "reason": "check not built yet (work in progress); see DESIGN.md section 2 for the planned generated-input check"})
        continue
    m = importlib.import_module("checks." + mods[0])
    checks.append({
        "property_id": pid,
        "quick_cmd": f"/venv/bin/python run_check.py {pid} --tier quick",
        "thorough_cmd": f"/venv/bin/python run_check.py {pid} --tier thorough",
        "evidence_file": f"/verif/evidence/{pid}.json",
        "replay_cmd_template": f"/venv/bin/python run_check.py {pid} --replay {{path}}",
        "engine": "vlib-hypothesis-runner",
        "level_claimed": {"category": "exploration", "text": m.LEVEL_TEXT, "design_ref": f"DESIGN.md section 2, {pid}"},
        "level_note": m.LEVEL_NOTE,
        "technique": m.TECHNIQUE,
    })
man = {
    "version": 1,
    "setup_cmd": "/venv/bin/python -c 'import hypothesis' 2>/dev/null || /venv/bin/pip install --no-index --find-links /opt/veriftools/wheels hypothesis",
    "hooks": {"guard": "AK_PY_VERIF", "enable": "no source hooks: checks import /repo's working tree directly (AK_PY_REPO overrides the path for mutation self-tests) and observe internals from outside via sys.setprofile / sys.settrace / monkey-patched module attributes",
              "baseline_off_cmd": BASE, "source_commits": [], "add_only": True},
    "engines": [{"name": "vlib-hypothesis-runner", "path": "/verif/vlib/core.py",
                 "serves_properties": [c["property_id"] for c in checks],
                 "kind_free_text": "Hypothesis 6.168 generators (16 seeded shards per part) + exhaustive itertools enumeration of finite sub-domains, explicit oracles (reference models, round trips, metamorphic relations), collect-then-shrink per root-cause bucket, JSON replay files"}],
    "checks": checks,
    "not_applicable": na,
    "notes": "All checks: exit 0 held / exit 1 + VIOLATION line / exit 2 harness error (inconclusive). VERIF_SEED selects the Hypothesis seeds. known_findings.json lists fixed and known defects. Every run evaluates a quarter of its cases with the package's debug logging on and repeats 20 % of them in a child interpreter with PYTHONOPTIMIZE=2 (violations found there are reported as '[python -O] bucket=...' with an ordinary VIOLATION line; their replay files carry the mode).",
}
json.dump(man, open(os.path.join(HERE, "MANIFEST.json"), "w"), indent=1)
print("checks:", [c["property_id"] for c in checks], "n/a:", len(na))
