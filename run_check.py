#!/venv/bin/python
"""Single entry point: run_check.py <ID> --tier quick|thorough [--replay FILE] [--part NAME]"""
import os
import sys

os.environ.setdefault("PYTHONHASHSEED", "0")
if os.environ.get("PYTHONHASHSEED") != "0" or not sys.flags.hash_randomization == 0:
    # re-exec with a fixed hash seed so set/dict order is stable across runs
    if os.environ.get("_VERIF_REEXEC") != "1":
        os.environ["PYTHONHASHSEED"] = "0"
        os.environ["_VERIF_REEXEC"] = "1"
        os.execv(sys.executable, [sys.executable] + sys.argv)

sys.path.insert(0, os.path.dirname(os.path.abspath(__file__)))
from vlib.core import main  # noqa

if __name__ == "__main__":
    sys.exit(main())
