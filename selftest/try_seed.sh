#!/bin/bash
# usage: try_seed.sh <seed name> [extra run_check args]   - applies the seeded patch to /repo, runs the quick check, reverts
s=$1; shift
p=${s%%_*}
git -C /repo apply /verif/seeded/$s/patch.diff || exit 2
VERIF_EVIDENCE_DIR=/tmp/ev_try_$s VERIF_NO_SHRINK=1 /verif/run_check.py $p "$@" 2>&1 | grep "VIOLATION\|bucket=\|^# " | cut -c1-260 | head -8
git -C /repo checkout -- .
rm -rf /tmp/ev_try_$s
