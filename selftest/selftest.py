#!/venv/bin/python
"""Sensitivity self-test: apply one small mutation to a scratch copy of /repo, optionally check
that the repository's own test suite still passes there (so the mutant is 'realistic'), run the
quick check against the copy (AK_PY_REPO) and expect exit 1.

usage: selftest.py [--tests] [--prop CNN] [--id MUTANT_ID] [--seeded]   (default: all mutants in mutants.json)
Scratch copies live under /tmp/akpy_mut_* and are removed after each mutant.
"""
import argparse
import json
import os
import shutil
import subprocess
import sys
import tempfile
import time

HERE = os.path.dirname(os.path.abspath(__file__))
VERIF = os.path.dirname(HERE)


def make_copy():
    d = tempfile.mkdtemp(prefix="akpy_mut_")
    subprocess.check_call(["git", "-C", "/repo", "worktree", "prune"])
    # plain copy of the working tree (not a git worktree: includes uncommitted hooks if any)
    shutil.copytree("/repo/ak", os.path.join(d, "ak"))
    shutil.copytree("/repo/tests", os.path.join(d, "tests"))
    shutil.copytree("/repo/bin", os.path.join(d, "bin"))
    return d


def apply_mutant(d, m):
    if "patch" in m:
        subprocess.check_call(["patch", "-p1", "-s", "-d", d, "-i", os.path.join(VERIF, m["patch"])])
        return
    p = os.path.join(d, m["file"])
    s = open(p).read()
    for old, new in ([[m["old"], m["new"]]] if "old" in m else m["edits"]):
        if s.count(old) != 1:
            raise SystemExit(f"mutant {m['id']}: pattern occurs {s.count(old)} times in {m['file']}")
        s = s.replace(old, new)
    open(p, "w").write(s)


def run_tests(d):
    r = subprocess.run(["/venv/bin/python", "-m", "pytest", "-q", "-x", "-p", "no:cacheprovider", "tests"],
                       cwd=d, capture_output=True, text=True, env=dict(os.environ, PYTHONPATH=d))
    return r.returncode == 0, r.stdout[-300:]


def run_check(d, prop, seed="1"):
    env = dict(os.environ, AK_PY_REPO=d, VERIF_SEED=seed, VERIF_NO_SHRINK="1", VERIF_EVIDENCE_DIR=os.path.join(d, "evidence"))
    t = time.time()
    r = subprocess.run(["/venv/bin/python", os.path.join(VERIF, "run_check.py"), prop, "--tier", "quick"],
                       cwd=VERIF, capture_output=True, text=True, env=env)
    buckets = [l for l in r.stdout.splitlines() if l.startswith("# " + prop + " bucket=")]
    return r.returncode, buckets, time.time() - t, r.stderr[-500:]


def main():
    ap = argparse.ArgumentParser()
    ap.add_argument("--tests", action="store_true")
    ap.add_argument("--prop", help="one property, or several separated by commas")
    ap.add_argument("--id")
    ap.add_argument("--seeded", action="store_true", help="run the seeded/<id>/patch.diff changes instead")
    ap.add_argument("--seed", default="1", help="VERIF_SEED for the checks; with a value other than 1 nothing is recorded")
    ap.add_argument("--start-after", help="skip everything up to and including this id (to resume a run)")
    a = ap.parse_args()
    if a.seeded:
        muts = []
        sd = os.path.join(VERIF, "seeded")
        for n in sorted(os.listdir(sd)):
            mp = os.path.join(sd, n, "meta.json")
            if os.path.exists(mp):
                meta = json.load(open(mp))
                if meta.get("judged", {}).get("claimed") is False:
                    print(f"{meta['property']} {n}: NOT-CLAIMED ({meta['judged']['reason'][:90]}...)")
                    continue
                muts.append({"id": n, "prop": meta["property"], "patch": f"seeded/{n}/patch.diff",
                             "cross": meta.get("cross_checks", [])})
    else:
        muts = json.load(open(os.path.join(HERE, "mutants.json")))
    if a.prop:
        muts = [m for m in muts if m["prop"] in a.prop.split(",")]
    if a.id:
        muts = [m for m in muts if m["id"] == a.id]
    if a.start_after:
        ids = [m["id"] for m in muts]
        muts = muts[ids.index(a.start_after) + 1:]
    bad = 0
    for m in muts:
        d = make_copy()
        try:
            try:
                apply_mutant(d, m)
            except (subprocess.CalledProcessError, SystemExit) as e:
                print(f"{m['prop']} {m['id']}: DOES-NOT-APPLY ({e})")
                sys.stdout.flush()
                bad += 1
                continue
            tests = ""
            if a.tests:
                ok, tail = run_tests(d)
                tests = " repo-tests=%s" % ("pass" if ok else "FAIL")
            rc, buckets, wall, err = run_check(d, m["prop"], a.seed)
            for other in m.get("cross", []):
                if rc == 0:
                    # the change is (also) a violation of a sibling property whose check has the needed dimension
                    rc, buckets, wall2, err = run_check(d, other, a.seed)
                    buckets = [b.replace("# " + other, "# via " + other, 1) for b in [l for l in buckets]]
                    wall += wall2
            status = "caught" if rc == 1 else ("MISSED" if rc == 0 else "HARNESS-ERROR")
            if rc != 1:
                bad += 1
            print(f"{m['prop']} {m['id']}: {status}{tests} wall={wall:.0f}s " +
                  "; ".join(b.split(":", 1)[0][2:] for b in buckets[:3]) + (("\n" + err) if rc == 2 else ""))
            sys.stdout.flush()
            if a.seeded and rc in (0, 1) and a.seed == "1":
                mp = os.path.join(VERIF, "seeded", m["id"], "meta.json")
                meta = json.load(open(mp))
                names = sorted({b.split(":", 1)[0].split("bucket=")[-1].strip() for b in buckets})
                meta["detection"] = {"quick_check_rc": rc, "caught_by_quick": rc == 1, "buckets": names[:8]}
                with open(mp, "w") as fh:
                    json.dump(meta, fh, indent=1)
                    fh.write("\n")
        finally:
            shutil.rmtree(d, ignore_errors=True)
            shutil.rmtree(os.path.join(VERIF, "replays_new"), ignore_errors=True)
    return 1 if bad else 0


if __name__ == "__main__":
    sys.exit(main())
