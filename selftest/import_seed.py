#!/venv/bin/python
"""Import a seeded change produced by an independent sub-agent and confirm it ourselves.

usage: import_seed.py <PROP> <src_dir> <name>
  <src_dir> holds patch.diff, demo.py, meta.json (e.g. /tmp/seed_C08/SEED1); result goes to /verif/seeded/<name>/.
Confirms in a scratch copy of /repo's current tree (outside /repo and /verif, removed afterwards):
  1. the patch applies, 2. the repository's own tests pass with it, 3. demo.py exits 1 with it and 0 without it,
then runs the quick check of the property against the patched copy and records whether it was caught.
"""
import json
import os
import shutil
import subprocess
import sys
import tempfile

VERIF = os.path.dirname(os.path.dirname(os.path.abspath(__file__)))


def sh(cmd, **kw):
    return subprocess.run(cmd, capture_output=True, text=True, **kw)


def main():
    prop, src, name = sys.argv[1:4]
    dst = os.path.join(VERIF, "seeded", name)
    d = tempfile.mkdtemp(prefix="akpy_seed_")
    try:
        for sub in ("ak", "tests", "bin"):
            shutil.copytree(os.path.join("/repo", sub), os.path.join(d, sub))
        demo = os.path.join(src, "demo.py")
        r0 = sh(["/venv/bin/python", demo, d], cwd=d)
        r = sh(["patch", "-p1", "-s", "-d", d, "-i", os.path.join(src, "patch.diff")])
        if r.returncode != 0:
            print("PATCH DOES NOT APPLY", r.stdout, r.stderr)
            return 1
        t = sh(["/venv/bin/python", "-m", "pytest", "-q", "-p", "no:cacheprovider", "tests"], cwd=d,
               env=dict(os.environ, PYTHONPATH=d))
        tests_ok = t.returncode == 0
        r1 = sh(["/venv/bin/python", demo, d], cwd=d)
        print(f"demo without change: rc={r0.returncode}; with change: rc={r1.returncode}; repo tests with change: "
              f"{'pass' if tests_ok else 'FAIL'} ({t.stdout.strip().splitlines()[-1] if t.stdout.strip() else ''})")
        if r0.returncode != 0 or r1.returncode != 1 or not tests_ok:
            print("NOT CONFIRMED", r0.stdout[-300:], r1.stdout[-300:])
            return 1
        env = dict(os.environ, AK_PY_REPO=d, VERIF_EVIDENCE_DIR=os.path.join(d, "ev"), VERIF_NO_SHRINK="1")
        c = sh(["/venv/bin/python", os.path.join(VERIF, "run_check.py"), prop, "--tier", "quick"], cwd=VERIF, env=env)
        buckets = sorted({l.split(":", 1)[0].split("bucket=")[1] for l in c.stdout.splitlines() if " bucket=" in l})
        caught = c.returncode == 1
        print(f"quick check {prop}: rc={c.returncode} {'CAUGHT' if caught else 'MISSED'} {buckets}")
        if c.returncode == 2:
            print(c.stderr[-800:])
        os.makedirs(dst, exist_ok=True)
        for fn in ("patch.diff", "demo.py"):
            shutil.copy(os.path.join(src, fn), os.path.join(dst, fn))
        meta = json.load(open(os.path.join(src, "meta.json")))
        meta["property"] = prop
        meta["confirmed"] = {
            "patch_applies_to_repo_head": sh(["git", "-C", "/repo", "rev-parse", "--short", "HEAD"]).stdout.strip(),
            "repo_tests_with_change": "208 passed" if tests_ok else "fail",
            "demo_rc_without_change": r0.returncode, "demo_rc_with_change": r1.returncode,
            "ran": f"selftest/import_seed.py {prop} <agent dir> {name}",
        }
        meta["detection"] = {"quick_check_rc": c.returncode, "caught_by_quick": caught, "buckets": buckets}
        json.dump(meta, open(os.path.join(dst, "meta.json"), "w"), indent=1)
        return 0
    finally:
        shutil.rmtree(d, ignore_errors=True)
        shutil.rmtree(os.path.join(VERIF, "replays_new"), ignore_errors=True)


if __name__ == "__main__":
    sys.exit(main())
