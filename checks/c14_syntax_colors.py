"""C14 - syntax colours resolve by inheritance, independent of registration order.

Oracle: reference resolver over the current first-wins description map, compared after every
registration step with what the configuration, its palettes and (for the global configuration)
the synced global palette hand out; two different orders/batchings of the same set are run side by
side and must agree (metamorphic).
"""
from hypothesis import strategies as st

from vlib import sgr
from vlib.core import Outcome, Part

ID = "C14"
RULE = ("structured colour descriptions (id from a dotted pool incl. built-in ids, optional parent drawn from earlier ids / "
        "built-ins / never or later registered ids, fg and bg each unspecified | '-' | name | int | (r,g,b) | gN, modifiers "
        "with no_ forms) rendered to equivalent string spellings (1-3 sections, blanks around colours and modifiers); the "
        "set is split into the initial config (flat or nested) and 0-4 later registrations (add_new_items, Palette classes "
        "with SYNTAX_DEFAULTS / PARENT_PALETTES, registered by instantiation or register_in_colors_conf), plus ignored "
        "re-declarations of already configured ids; a second run uses another order/batching; no_color configs; the global "
        "configuration with the synced global palette. Non-trivial = a reference chain of length >=2 containing an item that "
        "was registered before its parent; distinct by (set, split) hash."
        " Also: a compound palette (CompoundPalette subclass) among the views, and palette classes that become known to the configuration as its sub-palettes (get_sub_palette).")
ASSUMPTIONS = [
    "acyclic by construction (cycles trip an assertion in the package and are outside the quantifier)",
    "ids are unique within the set except generated re-declarations of ids that are already configured (first one wins)",
    "an id that is not registered at all is looked up as the default syntax TEXT (documented behaviour of get_color)",
    "basic colour k and 256-colour index k<8 are identified",
]

BUILTINS = {"TEXT": "", "NAME": "GREEN:bold", "KEYWORD": "BLUE:bold", "NUMBER": "YELLOW", "OK": "GREEN:bold",
            "WARN": "RED", "ERROR": "RED:bold"}
POOL = ["A", "B", "C", "GRP.X", "GRP.Y", "GRP.SUB.Z", "T2.P", "T2.Q", "NUMBER", "WARN", "TEXT", "NAME", "ERROR"]
NAMES = ['BLACK', 'RED', 'GREEN', 'YELLOW', 'BLUE', 'MAGENTA', 'CYAN', 'WHITE']
MODS = ["bold", "faint", "underline", "blink", "crossed"]


# ---------------------------------------------------------------------------
# rendering descriptions to strings
# ---------------------------------------------------------------------------

def color_str(spec, sp):
    if spec is None:
        return ""
    if spec == "-":
        return "-"
    if isinstance(spec, list):
        s = "(%d,%d,%d)" % tuple(spec) if sp % 2 == 0 else "( %d, %d ,%d )" % tuple(spec)
    else:
        s = str(spec)
    return s if sp % 3 else " " + s + " "


def desc_str(d):
    sp = d.get("sp", 0)
    fg, bg = d.get("fg"), d.get("bg")
    if fg is None and bg is None:
        colors = None
    elif bg is None:
        colors = color_str(fg, sp)
    else:
        colors = color_str(fg, sp) + "/" + color_str(bg, sp + 1)
    mods = d.get("mods") or {}
    mlist = [(k if v else "no_" + k) for k, v in mods.items()]
    mstr = (", " if sp % 2 else ",").join(mlist) if mlist else None
    parts = []
    if d.get("parent") is not None:
        parts.append(d["parent"])
        if colors is not None:
            parts.append(colors)
    else:
        parts.append(colors if colors is not None else "")
    if mstr:
        parts.append(mstr)
    return ":".join(parts)


def parse_builtin(s):
    """tiny structured form of the 7 built-in descriptions"""
    ch = s.split(":")
    d = {"parent": None, "fg": ch[0] or None, "bg": None, "mods": {}}
    if len(ch) > 1:
        d["mods"] = {m: True for m in ch[1].split(",")}
    return d


# ---------------------------------------------------------------------------
# reference resolver
# ---------------------------------------------------------------------------

def idx(spec):
    if spec is None or spec == "-":
        return None
    return sgr.color_index(tuple(spec) if isinstance(spec, list) else spec)


def resolve(m, i, seen=()):
    """-> (fg, bg, modsdict) or None when the chain reaches an unknown id"""
    d = m.get(i)
    if d is None:
        return None
    if d.get("parent") is None:
        return (idx(d.get("fg")), idx(d.get("bg")), dict(d.get("mods") or {}))
    assert i not in seen
    p = resolve(m, d["parent"], seen + (i,))
    if p is None:
        return None
    fg = p[0] if d.get("fg") is None else idx(d["fg"])
    bg = p[1] if d.get("bg") is None else idx(d["bg"])
    mods = dict(p[2])
    mods.update(d.get("mods") or {})
    return (fg, bg, mods)


def expected_state(m, i, no_color):
    if no_color:
        return sgr.DEFAULT
    r = resolve(m, i) if i in m else resolve(m, "TEXT")
    if r is None:
        return sgr.DEFAULT
    return (r[0], r[1], frozenset(k for k, v in r[2].items() if v))


def chain_len(m, i):
    n = 0
    while i in m:
        n += 1
        i = m[i].get("parent")
        if i is None:
            break
    return n


# ---------------------------------------------------------------------------

def nest(flat):
    out = {}
    for k, v in flat.items():
        cur = out
        parts = k.split(".")
        for p in parts[:-1]:
            cur = cur.setdefault(p, {})
        cur[parts[-1]] = v
    return out


def state_of(fmt):
    s = str(fmt("t"))
    cells, final, _ = sgr.interpret(s)
    if len(cells) != 1 or cells[0][0] != "t" or final != sgr.DEFAULT:
        raise sgr.Malformed(f"unexpected formatter output {s!r}")
    return cells[0][1], s


def run_plan(C, case, plan, use_global, findings, tag):
    """plan = {"initial": [desc idx], "nested": bool, "steps": [...]}; returns final {id: state}"""
    descs = case["descs"]
    no_color = bool(case.get("no_color"))
    model = {}
    universe = sorted({d["id"] for d in descs} | set(BUILTINS) | {"NOSUCH"})

    def add_model(items):
        for i, d in items:
            if i not in model:
                model[i] = d
    init_flat = {descs[k]["id"]: desc_str(descs[k]) for k in plan["initial"]}
    init_conf = nest(init_flat) if plan.get("nested") else init_flat
    try:
        conf = C.ColorsConfig(init_conf, no_color=no_color)
    except Exception as e:   # noqa
        findings.append(("config_constructor_raises_" + type(e).__name__, f"{tag}: {init_flat!r}: {e}"))
        return None
    add_model([(descs[k]["id"], descs[k]) for k in plan["initial"]])
    add_model([(k, parse_builtin(v)) for k, v in BUILTINS.items()])
    if use_global:
        C.set_global_colors_config(conf)
    acc_cls = None
    comp_cls = [None]
    pal_classes = []

    def check_all(step_label):
        nonlocal acc_cls
        # accessor palette class requested fresh at every step (same class: exercises the config's cache)
        if acc_cls is None:
            ns = {"a%d" % n: C.ConfColor(i) for n, i in enumerate(universe)}
            acc_cls = type(C.Palette)("AccPalette", (C.Palette,), ns)
            # ... and a compound palette (a palette that hands out sub-palettes) with the same accessors
            comp_cls[0] = type(C.CompoundPalette)("AccCompound", (C.CompoundPalette,), dict(ns, SUB_PALETTES_MAP={}))
        try:
            gp = conf.get_palette()
            acc = acc_cls(colors_conf=conf, no_color=False)
            comp = comp_cls[0](colors_conf=conf, no_color=False)
        except Exception as e:   # noqa
            findings.append(("palette_request_raises_" + type(e).__name__, f"{tag} {step_label}: {e}"))
            return False
        for n, i in enumerate(universe):
            want = expected_state(model, i, no_color)
            views = [("config.get_color", lambda: conf.get_color(i)), ("config.get_palette()[id]", lambda: gp[i]),
                     ("fresh Palette accessor", lambda: getattr(acc, "a%d" % n)),
                     ("compound palette accessor", lambda: getattr(comp, "a%d" % n))]
            if use_global:
                views.append(("global_palette[id]", lambda: C.global_palette[i]))
            std = {"TEXT": "text", "NAME": "name", "KEYWORD": "keyword", "OK": "ok", "WARN": "warn", "ERROR": "error"}
            if i in std:
                views.append(("config.get_palette()." + std[i], lambda: getattr(gp, std[i])))
                if use_global:
                    views.append(("global_palette." + std[i], lambda: getattr(C.global_palette, std[i])))
            for vname, get in views:
                try:
                    got, raw = state_of(get())
                except Exception as e:   # noqa
                    findings.append(("formatter_lookup_raises_" + type(e).__name__, f"{tag} {step_label} {vname} {i}: {e}"))
                    return False
                if no_color and "\x1b" in raw:
                    findings.append(("no_color_config_emits_escape", f"{tag} {step_label} {vname} {i}: {raw!r}"))
                    return False
                if got != want:
                    which = "fg" if got[0] != want[0] else "bg" if got[1] != want[1] else "modifiers"
                    pend = resolve(model, i) is None and i in model
                    kind = "unresolved_chain_is_colored" if pend else "wrong_" + which
                    findings.append((f"{kind}_via_{vname.split('.')[0].split('[')[0].split(' ')[0]}",
                                     f"{tag} {step_label}: {vname} of {i!r} shows {got}, reference {want}; "
                                     f"registered so far {sorted((k, desc_str(v)) for k, v in model.items() if 'id' in v)!r}"))
                    return False
        try:
            rep = conf.make_report()
            if not isinstance(rep, str):
                findings.append(("make_report_not_str", tag))
        except Exception as e:   # noqa
            findings.append(("make_report_raises_" + type(e).__name__, f"{tag} {step_label}: {e}"))
            return False
        return True

    if not check_all("after construction"):
        return None
    pal_info = {}      # class -> (own desc idx list, parent classes)
    registered = set()
    deferred = []

    def reg_model(cls):
        # mirror of Palette.register_in_colors_conf: once per config; parents first, then own defaults
        if cls in registered:
            return
        registered.add(cls)
        own, parents = pal_info[cls]
        for pc in parents:
            reg_model(pc)
        add_model([(descs[k]["id"], descs[k]) for k in own])

    steps = list(plan["steps"]) + [{"kind": "flush_deferred", "idx": []}]
    for sn, step in enumerate(steps):
        items = {descs[k]["id"]: desc_str(descs[k]) for k in step["idx"]}
        for did, dstr in step.get("dups", []):
            if did in model and did not in items:
                items[did] = dstr
        label = f"step {sn} {step['kind']} {items!r}"
        try:
            if step["kind"] == "items":
                conf.add_new_items(items, "src%d" % sn)
                add_model([(descs[k]["id"], descs[k]) for k in step["idx"]])
            elif step["kind"] == "flush_deferred":
                if not deferred:
                    continue
                for cls in deferred:
                    cls.register_in_colors_conf(conf)
                    reg_model(cls)
            else:
                known = list(pal_info)
                parents = [known[p % len(known)] for p in step.get("parents", [])] if known else []
                ns = {"SYNTAX_DEFAULTS": nest(items) if step.get("nested") else items}
                if parents:
                    ns["PARENT_PALETTES"] = parents
                if step["idx"]:
                    ns["acc"] = C.ConfColor(descs[step["idx"][0]]["id"])
                # distinct classes may share a name (palettes made by a factory function): identity, not the name, counts
                cls = type(C.Palette)("GenPalette%d" % (sn % 2), (C.Palette,), ns)
                pal_info[cls] = (list(step["idx"]), parents)
                if step["kind"] == "palette":
                    cls.register_in_colors_conf(conf)
                    reg_model(cls)
                elif step["kind"] == "palette_inst":
                    cls(colors_conf=conf)
                    reg_model(cls)
                elif step["kind"] == "palette_inst_nc":
                    # the class reaches this configuration through a no-colour palette, after it served another configuration
                    cls(colors_conf=C.ColorsConfig({}), no_color=True)
                    cls(colors_conf=conf, no_color=True)
                    reg_model(cls)
                elif step["kind"] == "palette_sub":
                    # the class becomes known to the configuration as a sub-palette of a compound palette
                    if comp_cls[0] is None:
                        check_all(label + " (before)")
                    comp_cls[0](colors_conf=conf, no_color=False).get_sub_palette(cls)
                    reg_model(cls)
                else:
                    deferred.append(cls)     # registered later through a child's PARENT_PALETTES or at the end
        except Exception as e:   # noqa
            import traceback
            where = traceback.extract_tb(e.__traceback__)[-1].name
            findings.append(("registration_raises_%s_in_%s" % (type(e).__name__, where), f"{tag} {label}: {e}"))
            return None
        if not check_all(label):
            return None
    return {i: expected_state(model, i, no_color) for i in universe}, model


def evaluate(case):
    import ak.color as C
    findings = []
    classes = set()
    use_global = bool(case.get("global"))
    saved = C._GLOBAL_COLORS_CONF if hasattr(C, "_GLOBAL_COLORS_CONF") else None
    try:
        r1 = run_plan(C, case, case["plan1"], use_global, findings, "order1")
        r2 = None
        if r1 is not None and not findings:
            r2 = run_plan(C, case, case["plan2"], False, findings, "order2")
    finally:
        if use_global:
            C.set_global_colors_config(saved if saved is not None else None)
    nt = False
    if r1 is not None:
        final_model = r1[1]
        # non-trivial: chain >= 2 with an item registered before its parent
        order = {}
        pos = 0
        for k in case["plan1"]["initial"]:
            order[case["descs"][k]["id"]] = 0
        for sn, step in enumerate(case["plan1"]["steps"]):
            for k in step["idx"]:
                order.setdefault(case["descs"][k]["id"], sn + 1)
        for d in case["descs"]:
            i, p = d["id"], d.get("parent")
            if p is not None and chain_len(final_model, i) >= 2:
                classes.add("chain_ge_2")
                if p not in BUILTINS and order.get(i, 99) < order.get(p, 99):
                    classes.add("item_registered_before_parent")
                    nt = True
            if p is not None and resolve(final_model, i) is None:
                classes.add("chain_reaches_unknown_id")
            if d.get("fg") == "-" or d.get("bg") == "-":
                classes.add("explicit_dash" + ("_with_parent" if p is not None else ""))
        if any(s["kind"] != "items" for s in case["plan1"]["steps"]):
            classes.add("palette_class_registration")
        if any(s.get("dups") for s in case["plan1"]["steps"]):
            classes.add("redeclaration_ignored")
        if case.get("no_color"):
            classes.add("no_color")
        if use_global:
            classes.add("global_config")
    if r1 is not None and r2 is not None and not findings:
        # the two plans register the same description set (first-wins collisions are plan-independent by construction)
        if r1[0] != r2[0]:
            diff = [i for i in r1[0] if r1[0][i] != r2[0].get(i)]
            findings.append(("result_depends_on_registration_order", f"ids {diff}"))
    key = [[desc_str(d) for d in case["descs"]], case["plan1"]["initial"], [s["idx"] for s in case["plan1"]["steps"]]]
    return Outcome(nt, sorted(classes), findings[:4], key=key, evals=2)


# ---------------------------------------------------------------------------

def st_color():
    return st.one_of(st.none(), st.none(), st.just("-"), st.sampled_from(NAMES), st.integers(0, 255),
                     st.lists(st.integers(0, 5), min_size=3, max_size=3), st.integers(0, 23).map(lambda i: "g%d" % i))


@st.composite
def st_case(draw):
    n = draw(st.integers(2, 8))
    ids = draw(st.permutations(POOL))[:n]
    descs = []
    for k, i in enumerate(ids):
        pk = draw(st.sampled_from(["none", "earlier", "earlier", "builtin", "unknown", "later"]))
        parent = None
        if pk == "earlier" and k > 0:
            parent = ids[draw(st.integers(0, k - 1))]
        elif pk == "builtin":
            parent = draw(st.sampled_from(sorted(BUILTINS)))
            if parent == i or parent in ids:
                # an overridden built-in may itself have a parent: keep acyclic by only pointing at earlier ones
                parent = parent if parent in ids[:k] else None
        elif pk == "unknown":
            parent = "NOSUCH"
        mods = draw(st.dictionaries(st.sampled_from(MODS), st.booleans(), max_size=3))
        descs.append({"id": i, "parent": parent, "fg": draw(st_color()), "bg": draw(st_color()), "mods": mods,
                      "sp": draw(st.integers(0, 29))})

    # a description of a built-in id only takes effect in the initial config (built-ins are registered by the
    # constructor): keep its placement identical in both plans so that both register the same effective set
    forced_init = [k for k in range(n) if ids[k] in BUILTINS and draw(st.booleans())]
    forced_late = [k for k in range(n) if ids[k] in BUILTINS and k not in forced_init]

    def plan():
        perm = [k for k in draw(st.permutations(list(range(n)))) if k not in forced_init and k not in forced_late]
        n_init = draw(st.integers(0, len(perm)))
        initial = sorted(perm[:n_init] + forced_init)
        rest = list(perm[n_init:]) + forced_late
        rest = list(draw(st.permutations(rest))) if rest else rest
        steps = []
        while rest:
            take = draw(st.integers(1, len(rest)))
            chunk, rest = rest[:take], rest[take:]
            steps.append({"kind": draw(st.sampled_from(["items", "items", "palette", "palette_inst", "palette_defer", "palette_sub", "palette_inst_nc"])), "idx": chunk,
                          "nested": draw(st.booleans()), "parents": draw(st.lists(st.integers(0, 5), max_size=2)),
                          "dups": []})
            if len(steps) >= 4 and rest:
                steps[-1]["idx"] = steps[-1]["idx"] + rest
                rest = []
        return {"initial": initial, "nested": draw(st.booleans()), "steps": steps}
    p1, p2 = plan(), plan()
    # ignored re-declarations: only of ids present in the explicit config of *both* plans, or built-in ids
    common = [descs[k]["id"] for k in p1["initial"] if k in p2["initial"]] + [b for b in BUILTINS]
    for pl in (p1, p2):
        for s in pl["steps"]:
            if common and draw(st.integers(0, 2)) == 0:
                s["dups"] = [[draw(st.sampled_from(common)), draw(st.sampled_from(["CYAN:blink", "MAGENTA/WHITE", "200"]))]]
    # flat ids and nested prefixes must not collide inside one nested dict ("GRP" vs "GRP.X" never both: pool has no "GRP")
    return {"descs": descs, "plan1": p1, "plan2": p2, "no_color": draw(st.integers(0, 7)) == 0,
            "global": draw(st.integers(0, 3)) == 0}


def eval_resync(case):
    """synced palettes and a replaced global configuration: palette classes with SYNTAX_DEFAULTS (whose descriptions may
    refer to ids that only a palette created later declares) are instantiated with synced=True under global
    configuration A; then a new global configuration B is installed. Every accessor of every synced palette, the
    global palette and B itself must show the reference resolution of (B's explicit items + built-ins + all defaults)."""
    import ak.color as C
    descs = case["descs"]
    findings = []
    classes = set(["global_resync"])
    universe = sorted({d["id"] for d in descs} | set(BUILTINS) | {"NOSUCH"})
    saved = C._GLOBAL_COLORS_CONF
    mine = []

    def model_for(initial):
        model = {}
        for k in initial:
            model.setdefault(descs[k]["id"], descs[k])
        for k, v in BUILTINS.items():
            model.setdefault(k, parse_builtin(v))
        for grp in case["groups"]:
            for k in grp:
                model.setdefault(descs[k]["id"], descs[k])
        return model

    def check(label, model, pals, conf):
        for n, i in enumerate(universe):
            want = expected_state(model, i, False)
            views = [("config.get_color", lambda: conf.get_color(i)), ("global_palette[id]", lambda: C.global_palette[i])]
            views += [("synced palette %d accessor" % pn, (lambda p: lambda: getattr(p, "a%d" % n))(p)) for pn, p in enumerate(pals)]
            for vname, get in views:
                try:
                    got, _raw = state_of(get())
                except Exception as e:   # noqa
                    findings.append(("resync_lookup_raises_" + type(e).__name__, f"{label} {vname} {i}: {e}"))
                    return False
                if got != want:
                    pend = resolve(model, i) is None and i in model
                    kind = "unresolved_chain_is_colored" if pend else "stale_or_wrong_formatter"
                    findings.append((f"{kind}_after_global_config_change_via_{vname.split(' ')[0].split('[')[0].split('.')[0]}",
                                     f"{label}: {vname} of {i!r} shows {got}, reference {want}; groups "
                                     f"{[[desc_str(descs[k]) for k in g] for g in case['groups']]!r} explicit "
                                     f"{[(descs[k]['id'], desc_str(descs[k])) for k in case['init_b']]!r}"))
                    return False
        return True
    try:
        conf_a = C.ColorsConfig({descs[k]["id"]: desc_str(descs[k]) for k in case["init_a"]})
        C.set_global_colors_config(conf_a)
        pals = []
        for gn, grp in enumerate(case["groups"]):
            ns = {"SYNTAX_DEFAULTS": {descs[k]["id"]: desc_str(descs[k]) for k in grp}}
            ns.update({"a%d" % n: C.ConfColor(i) for n, i in enumerate(universe)})
            cls = type(C.Palette)("SyncedGen%d" % gn, (C.Palette,), ns)
            mine.append(cls)
            pals.append(cls(synced=True))
        ok = check("under configuration A", model_for(case["init_a"]), pals, conf_a)
        for rnd in range(case.get("rounds", 1)):
            if not ok:
                break
            conf_b = C.ColorsConfig({descs[k]["id"]: desc_str(descs[k]) for k in case["init_b"]})
            C.set_global_colors_config(conf_b)
            ok = check("after installing configuration B (round %d)" % rnd, model_for(case["init_b"]), pals, conf_b)
    except Exception as e:   # noqa
        import traceback
        where = traceback.extract_tb(e.__traceback__)[-1].name
        findings.append(("resync_raises_%s_in_%s" % (type(e).__name__, where), f"{e}"))
    finally:
        for cls in mine:      # reset of the package's process-wide registry: synced palettes of this case only
            C._GSYNCED_PALETTES.pop(cls, None)
        C.set_global_colors_config(saved)
    # non-trivial: an earlier palette's defaults refer to an id declared only by a later palette
    nt = False
    where = {}
    for gn, grp in enumerate(case["groups"]):
        for k in grp:
            where[descs[k]["id"]] = gn
    for gn, grp in enumerate(case["groups"]):
        for k in grp:
            p = descs[k].get("parent")
            if p in where and where[p] > gn and descs[k]["id"] not in BUILTINS:
                nt = True
                classes.add("default_refers_to_id_of_later_palette")
    if len(case["groups"]) >= 2:
        classes.add("two_or_more_synced_palettes")
    return Outcome(nt, sorted(classes), findings[:3], key=[[desc_str(d) for d in descs], case["groups"], case["init_a"], case["init_b"]])


@st.composite
def st_resync_case(draw):
    base = draw(st_case())
    descs = base["descs"]
    n = len(descs)
    perm = list(draw(st.permutations(list(range(n)))))
    ng = draw(st.integers(1, 3))
    cut = sorted(draw(st.lists(st.integers(0, n), min_size=ng, max_size=ng)))
    groups, prev = [], 0
    rest = perm
    for c in cut:
        groups.append(rest[prev:c])
        prev = c
    groups = [g for g in groups if g]
    left = rest[prev:]
    if not groups:
        groups = [perm[:1]]
        left = perm[1:]
    init_a = [k for k in left if draw(st.booleans())]
    init_b = [k for k in left if draw(st.booleans())]
    # B may also explicitly configure ids that palettes declare (explicit items win over defaults)
    init_b += [k for g in groups for k in g if draw(st.integers(0, 4)) == 0]
    return {"descs": descs, "groups": groups, "init_a": init_a, "init_b": init_b, "rounds": draw(st.integers(1, 2))}


def regression_cases():
    # F9: a description with a parent and an explicit '-'
    d = [{"id": "A", "parent": "NAME", "fg": "-", "bg": "BLUE", "mods": {}, "sp": 1}]
    yield {"descs": d, "plan1": {"initial": [0], "nested": False, "steps": []},
           "plan2": {"initial": [], "nested": False, "steps": [{"kind": "items", "idx": [0], "dups": [], "parents": []}]},
           "no_color": False, "global": False}


def parts(tier):
    k = 1 if tier == "quick" else 40
    return [
        Part("regressions", evaluate, enumerate=regression_cases, exhaustive=True),
        Part("description_sets", evaluate, strategy=st_case, examples=5000 * k),
        Part("global_resync", eval_resync, strategy=st_resync_case, examples=2500 * k,
             note="synced palettes re-registering themselves when the global configuration is replaced"),
    ]


TECHNIQUE = "property-based testing (Hypothesis) with a reference inheritance resolver checked after every registration step through four access paths, plus a metamorphic relation between two registration orders of the same description set"
LEVEL_TEXT = ("Exploration: ~5k generated description sets per quick run (200k thorough), each registered in two different splits/orders; "
              "after every step every id is read back through the configuration, a palette of all ids, a fresh Palette subclass and "
              "(for the global configuration) the synced global palette, and the SGR state is compared with the reference resolver.")
LEVEL_NOTE = "Trusted: the 25-line reference resolver, vlib/sgr.py, Hypothesis."
