"""C04 - source positions are exact and cover the text.

Expected coordinates come from the layout generator (vlib.grammar.render), never from the code.
"""
from hypothesis import strategies as st

from vlib import grammar as gk
from vlib.core import Outcome, Part
from vlib.parserguard import parse_guarded
from checks.c01_parse_tree_validity import build_parser, concrete_tokens, st_inputs

ID = "C04"
RULE = ("texts rendered by the layout generator from token lists (1-10 lines; blank lines; lines starting at column 1 or "
        "indented; trailing blanks; '#' comments; /* */ span tokens closing on the same or a later line with blank lines "
        "inside; text as str and as list of lines) over a fixed rich statement grammar (nullable user symbols as last child, "
        "nested common prefixes, a factorised pair with nullable remainder, recursion) and over random C01 grammars with "
        "sampled sentences; lexical-error cases inject one foreign character next to a generated token; part arbitrary_text: "
        "any text over the tokenizer alphabet (with / without foreign characters, with comment characters) checked against the "
        "token-stream invariants only; part context_spans: a second tokenizer configuration with two span tokens ('<<<', '%w') whose closer "
        "counts only at the start of a line / not directly behind '<' or a word character / as a whole word, 1-5 lines of pieces "
        "containing the closer characters in and out of such contexts, the complete token stream (names, spans, values) compared with a "
        "hand-written scanner (non-trivial there = a closed span whose body contains the closer characters). Non-trivial = a "
        "parsed text of >=2 lines containing an un-indented line start, a blank line or a multi-line span token, or a tree "
        "with an empty node / a node of a factorised group; distinct by (grammar, text).")
ASSUMPTIONS = [
    "part same_length_texts finds caches keyed by the identity of the text only when the allocator hands the address of a dropped text to the next one (frequent for equally long texts, not guaranteed); judging does not depend on it",
    "inner-node span = start of first child .. end of last child after helper symbols are spliced out; a child that matched nothing has the empty span at the start of the following non-skipped token",
    "for an empty node followed only by the end of input any position from the end of the last token to the end of the text is accepted (start == end required)",
    "list-of-lines input carries no newline characters inside the lines",
    "the lexical-error position is only required to name the right line",
]

FIXED = {
    "prods": {
        "E": [["STMTS"]],
        "STMTS": [["STMT", "STMTS"], []],
        "STMT": [["IF", "EXPR", "DO", "STMTS", "END_KW"], ["CALL", ";"]],
        "CALL": [["WORD", "ARGS", "TAG"]],
        "ARGS": [["(", "EXPR", ",", "EXPR", ")"], ["(", "EXPR", ")"], ["(", ")"], []],
        "TAG": [[":", "WORD"], []],
        "EXPR": [["TERM", "+", "EXPR"], ["TERM"]],
        "TERM": [["NUM"], ["WORD"], ["[", "EXPR", "]"], ["MLSTR"]],
    },
    "start": "E",
    "terms": ["IF", "DO", "END_KW", ";", "WORD", "(", ")", ",", ":", "+", "NUM", "[", "]", "MLSTR"],
}
FIXED_KINDS = {"IF": "KW_if", "DO": "KW_do", "END_KW": "KW_end", ";": "SEMI", "WORD": "WORD", "(": "LPAR", ")": "RPAR",
               ",": "COMMA", ":": "COLON", "+": "PLUS", "NUM": "NUM", "[": "LBR", "]": "RBR", "MLSTR": "MLSTR"}


# characters no token pattern matches: punctuation, control characters, an unassigned and a private-use code point
FOREIGN_CHARS = "@$?!~`\x00\x07\x7f\u0378\ue000\ufeff"      # (the last one, a byte order mark, is put at the very start of the text)


def le(a, b):
    return a <= b


def check_positions(root, tokens, pos, text, src, nonterms, suffix_free=True):
    """walk the raw tree; -> (findings, info)"""
    f = []
    info = set()
    n = len(tokens)
    lines = text.split("\n")
    end_of_text = (len(lines), len(lines[-1]) + 1)
    last_tok_end = pos[-1][1] if pos else (1, 1)
    idx = [0]

    def expect_empty_at(k):
        if k < n:
            return ("at", pos[k][0])
        return ("end", None)

    def visit(t):
        """-> (exp_start, exp_end) each ('at', (l,c)) or ('end', None)"""
        if t.name in nonterms:
            kids = t.value if t.value is not None else []
            if not kids:
                info.add("empty_node")
                e = expect_empty_at(idx[0])
                got_s, got_e = t.span
                if got_s != got_e:
                    f.append(("empty_node_span_not_empty", f"{t.name}: {t.span}"))
                elif e[0] == "at" and got_s != e[1]:
                    f.append(("empty_node_not_at_following_token", f"{t.name}: {t.span}, following token starts at {e[1]}"))
                elif e[0] == "end" and not (last_tok_end <= got_s <= end_of_text):
                    f.append(("empty_node_at_end_out_of_range", f"{t.name}: {t.span}, allowed {last_tok_end}..{end_of_text}"))
                else:
                    try:
                        if t.get_orig_text(src) != "":
                            f.append(("empty_node_orig_text_not_empty", f"{t.name} {t.span}: {t.get_orig_text(src)!r}"))
                    except AssertionError as ex:
                        f.append(("empty_node_orig_text_raises_AssertionError", f"{t.name} {t.span}: {ex}"))
                return e, e
            spans = [visit(k) for k in kids]
            es, ee = spans[0][0], spans[-1][1]
            got_s, got_e = t.span
            if es[0] == "at" and got_s != es[1]:
                f.append(("node_start_is_not_start_of_first_child", f"{t.name}: starts {got_s}, first child starts {es[1]}"))
            if ee[0] == "at" and got_e != ee[1]:
                last = kids[-1]
                kind = "node_end_beyond_last_token" if last.name not in nonterms else "node_end_is_not_end_of_last_child"
                f.append((kind, f"{t.name}: ends {got_e}, last child {last.name} ends {ee[1]}"))
            if ee[0] == "end" and not (last_tok_end <= got_e <= end_of_text):
                f.append(("node_end_out_of_range_at_end_of_input", f"{t.name}: ends {got_e}"))
            if es[0] == "at" and ee[0] == "at" and not f:
                try:
                    ot = t.get_orig_text(src)
                    exp = slice_text(lines, es[1], ee[1])
                    if ot != exp:
                        f.append(("node_orig_text_wrong", f"{t.name}: {ot!r} expected {exp!r}"))
                except AssertionError as e:
                    f.append(("node_orig_text_raises_AssertionError", f"{t.name} {t.span}: {e}"))
            return es, ee
        # leaf token
        i = idx[0]
        idx[0] += 1
        if i >= n:
            f.append(("more_leaves_than_tokens", t.name))
            return ("end", None), ("end", None)
        if t.span != pos[i]:
            which = "first_token_of_line" if (i == 0 or pos[i - 1][1][0] != pos[i][0][0]) else "token"
            f.append((f"{which}_span_wrong", f"token {i} {tokens[i]!r}: span {t.span}, expected {pos[i]}"))
        else:
            try:
                ot = t.get_orig_text(src)
                if ot != tokens[i][1]:
                    f.append(("leaf_orig_text_is_not_lexeme", f"token {i}: {ot!r} expected {tokens[i][1]!r}"))
            except AssertionError as e:
                f.append(("leaf_orig_text_raises_AssertionError", f"token {i} {t.span}: {e}"))
        return ("at", pos[i][0]), ("at", pos[i][1])
    visit(root)
    return f, info


def slice_text(lines, s, e):
    (sl, sc), (el, ec) = s, e
    if sl == el:
        return lines[sl - 1][sc - 1:ec - 1]
    out = [lines[sl - 1][sc - 1:]] + lines[sl:el - 1] + [lines[el - 1][:ec - 1]]
    return "\n".join(out)


def check_token_stream(parser, text, src, as_list):
    """invariants over ALL tokens (skipped ones included)"""
    f = []
    info = set()
    lines = text.split("\n")
    eff = lines if as_list else [ln.rstrip() for ln in lines]
    try:
        toks = list(parser.tokenizer.tokenize(src, "src"))
    except Exception as e:   # noqa
        return [("tokenizer_raises_" + type(e).__name__, str(e)[:200])], info
    body = toks[:-1]
    prev_end = (1, 1)
    covered_until = {}    # line -> col up to which tokens cover it
    for t in body:
        s, e = t.span
        if s > e:
            f.append(("token_span_reversed", f"{t}"))
            break
        if s < prev_end:
            f.append(("spans_move_backwards", f"{t} starts before {prev_end}"))
            break
        if s[0] == prev_end[0] and s != prev_end and prev_end != (1, 1):
            f.append(("same_line_tokens_not_adjacent", f"{t} after {prev_end}"))
            break
        if s[0] != prev_end[0] or prev_end == (1, 1):
            # first token on its line
            if s[1] != 1:
                f.append(("first_token_of_line_does_not_start_at_its_column", f"{t}: a line's first token (blank "
                          f"tokens included) must start at column 1 of line {s[0]}"))
                break
            # everything between prev_end and s must be blank
        src_piece = slice_text(eff, s, e) if e[0] <= len(eff) and e[1] - 1 <= len(eff[e[0] - 1]) else None
        if src_piece is None:
            f.append(("token_end_outside_text", f"{t}"))
            break
        if t.name == "MLSTR":
            # the other span token type (not skipped): region from opener to closer, value = the text between them
            q3 = gk.Q3
            if not (src_piece.startswith(q3) and src_piece.endswith(q3) and len(src_piece) >= 6):
                f.append(("span_token_region_wrong", f"{t}: slice {src_piece!r}"))
                break
            if s[0] != e[0]:
                info.add("multi_line_span_token")
                info.add("multi_line_terminal_token")
            for ln in range(s[0], e[0] + 1):
                covered_until[ln] = e[1] if ln == e[0] else len(eff[ln - 1]) + 1
            prev_end = e
            continue
        if s[0] == e[0]:
            if t.name not in ("COMMENT",) or not src_piece.startswith("/*"):
                if src_piece != t.value:
                    f.append(("token_source_slice_is_not_its_value", f"{t}: slice {src_piece!r}"))
                    break
        if src_piece.startswith("/*") and t.name == "COMMENT":
            if not src_piece.endswith("*/"):
                f.append(("span_token_region_wrong", f"{t}: slice {src_piece!r}"))
                break
            if s[0] != e[0]:
                info.add("multi_line_span_token")
        elif s[0] != e[0]:
            f.append(("single_line_token_spans_lines", f"{t}"))
            break
        for ln in range(s[0], e[0] + 1):
            covered_until[ln] = e[1] if ln == e[0] else len(eff[ln - 1]) + 1
        prev_end = e
    if not f:
        for i, ln in enumerate(eff, start=1):
            c = covered_until.get(i, 1)
            if ln[c - 1:].strip() != "":
                f.append(("text_not_covered_by_tokens", f"line {i}: {ln!r} covered up to column {c}"))
                break
    return f, info


def eval_text(case):
    """layout-free oracle on arbitrary text over the tokenizer alphabet (no grammar involved)"""
    import ak.llparser as L
    text = case["text"]
    as_list = bool(case.get("as_list"))
    src = text.split("\n") if as_list else text
    tokcfg, _ = gk.tok_config(True, True)
    tk = L._Tokenizer(gk.TOKENIZER, **tokcfg)

    class _P:       # check_token_stream only needs .tokenizer
        tokenizer = tk
    lines = text.split("\n")
    foreign = [i + 1 for i, ln in enumerate(lines) if any(ch in FOREIGN_CHARS for ch in ln)]
    f = []
    classes = set(["arbitrary_text"])
    try:
        list(tk.tokenize(src, "src"))
        ok = True
    except L.LexicalError as e:
        ok = False
        if not foreign:
            if case.get("comments"):
                classes.add("lexical_error_in_comment_alphabet")     # lone '/' or '*', unclosed span: legitimate
            else:
                f.append(("lexical_error_without_foreign_character", f"{text!r}: {e}"))
        elif not case.get("comments") and e.src_pos.line != foreign[0]:
            f.append(("lexical_error_names_wrong_line", f"{text!r}: reported line {e.src_pos.line}, first foreign "
                      f"character on line {foreign[0]}"))
        classes.add("lexical_error")
    except Exception as e:   # noqa
        ok = False
        f.append(("tokenizer_raises_" + type(e).__name__, f"{text!r}: {e}"))
    if ok:
        if foreign and not case.get("comments"):
            f.append(("foreign_character_accepted", repr(text)))
        ff, inf = check_token_stream(_P, text, src, as_list)
        f.extend((b, f"text={text!r} as_list={as_list}: {d}") for b, d in ff)
        classes |= inf
        classes.add("lexed")
    nt = len(lines) >= 2 and any(ln and not ln[0].isspace() for ln in lines[1:])
    return Outcome(nt, sorted(classes), f[:3], key=[text, as_list])


def evaluate(case):
    if "text" in case:
        return eval_text(case)
    import ak.llparser as L
    classes = set()
    f = []
    if case["grammar"] == "fixed":
        tokcfg, names = gk.tok_config(True, True)
        conc = {"prods": FIXED["prods"], "start": "E", "terms": FIXED["terms"], "kinds": dict(FIXED_KINDS),
                "all_names": names}
        classes.add("fixed_grammar")
    else:
        tokcfg, names = gk.tok_config(case["syn"], case["kw"])
        conc = gk.rename(case["g"], case["pool"], case["perm"], names)
        conc["all_names"] = names
        classes.add("random_grammar")
    try:
        parser = build_parser(L, conc, tokcfg, case.get("smart", True))
    except L.GrammarIsRecursive:
        return Outcome(False, ["constructor_rejects_recursive"], [])
    except Exception as e:   # noqa
        return Outcome(False, [], [("constructor_raises_" + type(e).__name__, str(e)[-200:])])
    nonterms = set(conc["prods"])
    factorised = {a for a, alts in conc["prods"].items()
                  if any(alts[i] and alts[i - 1] and alts[i][0] == alts[i - 1][0] for i in range(1, len(alts)))}
    nt = False
    evals = 0
    keys = []
    line_buf = []
    n_list_parses = 0
    for inp in case["inputs"]:
        tokens = concrete_tokens(conc, inp["toks"])
        text, pos = gk.render(tokens, inp["seps"])
        as_list = bool(inp.get("as_list"))
        lines = text.split("\n")
        if as_list:
            # one list object per case, edited in place between the parses (a caller may keep and reuse its buffer)
            line_buf[:] = lines
            src = line_buf
            if n_list_parses:
                classes.add("list_buffer_reused_in_place")
            n_list_parses += 1
        else:
            src = text
        evals += 1
        if inp.get("foreign") is not None and tokens:
            # lexical error: one foreign character right before token k
            k = inp["foreign"][0] % len(tokens)
            ch = FOREIGN_CHARS[inp["foreign"][1] % len(FOREIGN_CHARS)]
            (l, c) = pos[k][0]
            if ch == "\ufeff":
                (l, c) = (1, 1)
            bad_lines = list(lines)
            bad_lines[l - 1] = bad_lines[l - 1][:c - 1] + ch + bad_lines[l - 1][c - 1:]
            if as_list:
                line_buf[:] = bad_lines
                bad = line_buf
            else:
                bad = "\n".join(bad_lines)
            classes.add("lexical_error_case")
            try:
                parser.parse(bad, do_cleanup=False)
                f.append(("foreign_character_accepted", f"{bad!r}"))
            except L.LexicalError as e:
                if getattr(e, "src_pos", None) is None or e.src_pos.line != l:
                    f.append(("lexical_error_names_wrong_line", f"{bad!r}: reported line "
                              f"{getattr(getattr(e, 'src_pos', None), 'line', None)}, foreign character on line {l}"))
            except L.ParsingError:
                f.append(("foreign_character_gives_ParsingError", f"{bad!r}"))
            except Exception as e:   # noqa
                f.append(("foreign_character_raises_" + type(e).__name__, f"{bad!r}: {e}"))
            continue
        if inp.get("poison") is not None:
            # the same parser first rejects another text (never closed comment, foreign character)
            parse_guarded(L, parser, ["x /* never closed", "a $ b", "/*\n\n", "a\n  @"][inp["poison"] % 4], 8, budget=20000,
                          do_cleanup=False)
            classes.add("rejected_text_parsed_before")
        ff, inf = check_token_stream(parser, text, src, as_list)
        for b, d in ff:
            f.append((b, f"text={text!r} as_list={as_list}: {d}"))
        classes |= inf
        psrc = src
        ml = [k for k in range(len(tokens)) if pos[k][0][0] != pos[k][1][0]]
        if as_list and ml:
            # ... and precisely while the outer text is inside a multi-line terminal token (its second line)
            def _lines2(lines=list(src), at=pos[ml[0]][0][0]):
                for i, ln in enumerate(lines):
                    if i == at:
                        parse_guarded(L, parser, "w /* q\n r */ (7) ; zz", 8, budget=20000, do_cleanup=False)
                    yield ln
            psrc = _lines2()
            classes.add("nested_parse_inside_a_multi_line_token")
        elif as_list and inp.get("poison") is not None and inp["poison"] % 2 == 0:
            # the text arrives as a lazy iterable of lines whose producer, half-way, lets the same parser (and its
            # tokenizer) work on another text
            def _lines(lines=list(src), at=inp["poison"]):
                for i, ln in enumerate(lines):
                    if i == (at // 2) % max(1, len(lines)):
                        parse_guarded(L, parser, "w /* q\n r */ (7) ; zz", 8, budget=20000, do_cleanup=False)
                    yield ln
            psrc = _lines()
            classes.add("nested_parse_while_lines_are_consumed")
        kind, res, stt = parse_guarded(L, parser, psrc, len(tokens), do_cleanup=False)
        if kind == "tree":
            ff, inf2 = check_positions(res, tokens, pos, text, src, nonterms)
            for b, d in ff:
                f.append((b, f"grammar={'fixed' if case['grammar'] == 'fixed' else conc['prods']!r} text={text!r} "
                          f"as_list={as_list}: {d}"))
            classes |= inf2
            classes.add("tree_returned")
            # whole text
            if tokens and inp["seps"][0] == "" and inp["seps"][-1] == "" and not ff:
                if res.span == (pos[0][0], pos[-1][1]):
                    try:
                        if res.get_orig_text(src) != text:
                            f.append(("root_orig_text_is_not_the_text", f"{text!r} -> {res.get_orig_text(src)!r}"))
                    except AssertionError as e:
                        f.append(("root_orig_text_raises_AssertionError", f"{text!r}: {e}"))
            multi = len(lines) >= 2
            unindented = any(p[0][1] == 1 and p[0][0] > 1 for p in pos)
            blank_line = any(ln.strip() == "" for ln in lines[1:-1]) if len(lines) > 2 else False
            if unindented:
                classes.add("unindented_line_start")
            if blank_line:
                classes.add("blank_line")
            used = set()
            stack = [res]
            while stack:
                t = stack.pop()
                if t.name in nonterms:
                    used.add(t.name)
                    stack.extend(t.value or [])
            if used & factorised:
                classes.add("factorised_node")
            if (multi and (unindented or blank_line or "multi_line_span_token" in inf)) or "empty_node" in inf2 or \
                    (used & factorised):
                nt = True
                keys.append(text)
        elif kind == "parsing_error":
            classes.add("parsing_error")
        elif kind == "lexical_error":
            f.append(("unexpected_LexicalError", f"text={text!r}: {res}"))
        elif kind == "diverged":
            f.append(("parse_diverges", f"text={text!r}"))
        elif kind == "exception":
            f.append(("parse_raises_" + type(res).__name__, f"text={text!r}: {res}"))
        if as_list:
            classes.add("text_as_list_of_lines")
        if len(f) > 3:
            break
    return Outcome(nt, sorted(classes), f[:4], key=[case["grammar"] if case["grammar"] == "fixed" else conc["prods"], keys],
                   evals=evals)


# ---------------------------------------------------------------------------

def _fixed_grammar():
    # abstract form of the fixed grammar: terminals as kinds
    prods = {a: [[FIXED_KINDS.get(s, s) for s in alt] for alt in alts] for a, alts in FIXED["prods"].items()}
    return {"prods": prods, "start": "E", "terms": [FIXED_KINDS[t] for t in FIXED["terms"]]}


@st.composite
def st_nullable_prefix_grammar(draw):
    """records whose alternatives share a common prefix made of nullable symbols only, one alternative being just that prefix:
    nodes that match nothing although a factorised group was entered"""
    opt_terms = draw(st.permutations(["PLUS", "COMMA", "LPAR", "RPAR"]))
    npre = draw(st.integers(1, 2))
    prods = {"N0": [["N1"]], "N1": [["N2", "SEMI", "N1"], []]}
    pre = []
    for i in range(npre):
        a = "N%d" % (3 + i)
        prods[a] = draw(st.sampled_from([[[opt_terms[i]], []], [[], [opt_terms[i]]]]))
        pre.append(a)
    tails = draw(st.lists(st.sampled_from([["WORD", "NUM"], ["WORD"], ["NUM", "WORD"], ["WORD", "WORD", "NUM"]]), min_size=1,
                          max_size=3, unique_by=tuple))
    alts = [pre + t for t in tails] + [list(pre)]
    alts = list(draw(st.permutations(alts)))
    prods["N2"] = alts
    prods = {k: prods[k] for k in sorted(prods, key=lambda n: int(n[1:]))}
    return {"prods": prods, "start": "N0", "terms": ["SEMI", "WORD", "NUM"] + list(opt_terms[:npre])}


@st.composite
def st_case(draw, max_tokens=14):
    which = draw(st.sampled_from(["fixed", "fixed", "random", "nullable_prefix"]))
    if which == "nullable_prefix":
        from checks.c01_parse_tree_validity import st_inputs as st_in
        g = draw(st_nullable_prefix_grammar())
        G = gk.Grammar(g["prods"], g["start"], set(g["terms"]))
        inputs = draw(st_in(G, g, draw(st.integers(2, 5)), max_tokens=max_tokens))
        case = {"grammar": "random", "g": g, "pool": draw(st.integers(0, 4)), "perm": draw(st.permutations(list(range(6)))),
                "syn": draw(st.booleans()), "kw": False, "inputs": inputs, "smart": draw(st.booleans())}
        for inp in case["inputs"]:
            if draw(st.integers(0, 7)) == 0:
                inp["foreign"] = [draw(st.integers(0, 20)), draw(st.integers(0, 12))]
        return case
    if which == "fixed":
        g = _fixed_grammar()
        G = gk.Grammar(g["prods"], g["start"], set(g["terms"]))
        inputs = draw(st_inputs(G, g, draw(st.integers(2, 5)), max_tokens=max_tokens))
        inputs = [i for i in inputs]
        case = {"grammar": "fixed", "inputs": inputs, "smart": draw(st.booleans())}
    else:
        from checks.c01_parse_tree_validity import st_case as st_c01
        c = draw(st_c01(max_tokens=10))
        case = {"grammar": "random", "g": c["g"], "pool": c["pool"], "perm": c["perm"], "syn": c["syn"], "kw": c["kw"],
                "inputs": c["inputs"][:5], "smart": draw(st.booleans())}
    for inp in case["inputs"]:
        if draw(st.integers(0, 7)) == 0:
            inp["foreign"] = [draw(st.integers(0, 20)), draw(st.integers(0, 12))]
    return case


def st_text_case():
    plain = st.text("ab1+,;()[]{}: \t\n\n", max_size=40)
    with_foreign = st.builds(lambda a, ch, b: a + ch + b, plain, st.sampled_from("@$?\x00\x7f\u0378"), plain)
    comments = st.text("ab1+, \n\n#/*", max_size=40)
    return st.one_of(
        plain.map(lambda t: {"text": t}), with_foreign.map(lambda t: {"text": t}),
        comments.map(lambda t: {"text": t, "comments": True})).flatmap(
            lambda c: st.booleans().map(lambda b: dict(c, as_list=b)))


def eval_same_length_texts(case):
    """a stream of different texts of one and the same length, each parsed, queried with get_orig_text and dropped before
    the next one is built (records of a fixed-size format): every leaf's source slice must be its lexeme in *its* text"""
    import gc
    import ak.llparser as L
    prods = {"S": [("ITEM", "S"), ()], "ITEM": [("WORD",), ("NUM",), (";",)]}
    tokcfg, _ = gk.tok_config(True, False)
    parser = L.LLParser(gk.TOKENIZER, productions=prods, start_symbol_name="S", **tokcfg)
    f = []
    width = case["width"]
    nrec = 0
    for rec in case["records"]:
        # fixed-width words (letters encode the numbers), same layout for every record -> same text length
        words = ["w" + "".join("abcdefghij"[int(ch)] for ch in ("%0*d" % (width, n))) for n in rec]
        parts_ = []
        for i, w in enumerate(words):
            parts_.append(w)
            parts_.append(case["seps"][i % len(case["seps"])])
        text = "".join(parts_) + ";"
        root = parser.parse(text, do_cleanup=False)
        leaves = []
        stack = [root]
        while stack:
            t = stack.pop()
            if isinstance(t.value, list):
                stack.extend(reversed(t.value))
            elif t.value is not None:
                leaves.append(t)
        try:
            got = [lf.get_orig_text(text) for lf in leaves]
            whole = root.get_orig_text(text)
        except Exception as e:   # noqa
            f.append(("orig_text_of_a_later_text_raises_" + type(e).__name__, f"record {nrec} (text length {len(text)}): {e}"))
            break
        want = words + [";"]
        if got != want and not f:
            bad = next(i for i, (g, w) in enumerate(zip(got + [None] * len(want), want)) if g != w)
            f.append(("leaf_orig_text_is_text_of_an_earlier_source", f"record {nrec}: leaf {bad} get_orig_text -> "
                      f"{got[bad] if bad < len(got) else None!r}, its lexeme is {want[bad]!r} (text length {len(text)})"))
        if whole != text and not f:
            f.append(("root_orig_text_is_not_the_text", f"record {nrec}: {whole[:60]!r} vs {text[:60]!r}"))
        nrec += 1
        del root, leaves, stack, t, text, got, whole, parts_
        gc.collect()
    return Outcome(nrec >= 3, ["same_length_texts", "text_len_%s" % ("lt_512" if case["approx_len"] < 512 else "ge_512")], f,
                   key=[case["width"], case["records"][:2], case["seps"]], evals=nrec)


@st.composite
def st_same_length(draw):
    width = draw(st.integers(3, 9))
    nwords = draw(st.sampled_from([3, 8, 20, 60, 150, 400]))
    seps = draw(st.lists(st.sampled_from([" ", "  ", "\n", " \n "]), min_size=1, max_size=4))
    nrec = draw(st.integers(3, 8))
    recs = [[draw(st.integers(0, 10 ** width - 1)) for _ in range(nwords)] for _ in range(nrec)]
    return {"width": width, "records": recs, "seps": seps, "approx_len": nwords * (width + 2)}


# ---------------------------------------------------------------------------
# span tokens whose closer looks at its context (tokenizer configurations)
# ---------------------------------------------------------------------------

CTX_TOKENIZER = r"""
    (?P<SPACE>\s+)
    |(?P<HD><<<)
    |(?P<PW>%w)
    |(?P<WORD>[a-zA-Z_]+)
    |(?P<NUM>[0-9]+)
    |(?P<OP>[=;+<%])
"""
# closer kind -> regex handed to the tokenizer (documented: matched at the current position of the current line; its last
# named group is the last line of the body)
CTX_CLOSERS = {
    "line_start": r"^(?P<LAST>)EOT\b",                       # the closer counts only at the beginning of a line
    "not_behind": r"(?P<BODY>.*?)(?<![<\w])EOT",             # ... only when not directly behind '<' or a word character
    "word": r"(?P<BODY>.*?)\bEOT\b",                         # ... only as a whole word
}


def _wordch(c):
    return c.isalnum() or c == "_"


def ctx_closer_at(kind, line, col):
    """hand-written reading of the closer rule: index where the closer starts on this line looking from col, or None"""
    if kind == "line_start":
        ok = col == 0 and line.startswith("EOT") and not (len(line) > 3 and _wordch(line[3]))
        return 0 if ok else None
    i = line.find("EOT", col)
    while i >= 0:
        before = line[i - 1] if i > 0 else ""
        after = line[i + 3] if i + 3 < len(line) else ""
        if kind == "not_behind" and not (before == "<" or (before and _wordch(before))):
            return i
        if kind == "word" and not (before and _wordch(before)) and not (after and _wordch(after)):
            return i
        i = line.find("EOT", i + 1)
    return None


def ctx_reference(lines, kind):
    """-> [(name, (line, col), (line, col), value)] or the string 'unclosed'"""
    import re
    rx = re.compile(CTX_TOKENIZER, re.VERBOSE)
    out = []
    span = None          # (name, start, [body lines])
    for ln, line in enumerate(lines, start=1):
        col = 0
        while col < len(line):
            if span is not None:
                i = ctx_closer_at(kind, line, col)
                if i is None:
                    span[2].append(line[col:])
                    col = len(line)
                else:
                    span[2].append(line[col:i])
                    out.append((span[0], span[1], (ln, i + 3 + 1), "\n".join(span[2])))
                    span = None
                    col = i + 3
                continue
            m = rx.match(line, col)
            if m is None:
                return "lexical"
            if m.lastgroup in ("HD", "PW"):
                span = (m.lastgroup, (ln, col + 1), [])
            else:
                out.append((m.lastgroup, (ln, col + 1), (ln, m.end() + 1), m.group(0)))
            col = m.end()
    return "unclosed" if span is not None else out


def eval_ctx_spans(case):
    import ak.llparser as L
    kind = case["kind"]
    lines = [ln.rstrip() for ln in case["lines"]]
    text = "\n".join(lines)
    src = list(lines) if case.get("as_list") else text
    tk = L._Tokenizer(CTX_TOKENIZER, span_matchers={"HD": CTX_CLOSERS[kind], "PW": CTX_CLOSERS[kind]})
    ref = ctx_reference(lines, kind)
    ctx = f"closer={CTX_CLOSERS[kind]!r} text={text!r} as_list={bool(case.get('as_list'))}"
    classes = {"closer_" + kind}
    f = []
    try:
        toks = list(tk.tokenize(src, "src"))[:-1]
    except L.LexicalError as e:
        toks = None
        if ref == "unclosed":
            classes.add("span_never_closed")
        else:
            f.append(("lexical_error_on_text_with_closed_spans", f"{ctx}: {e}"))
    except Exception as e:   # noqa
        toks = None
        f.append(("tokenizer_raises_" + type(e).__name__, f"{ctx}: {e}"))
    nt = False
    if toks is not None:
        if ref == "unclosed":
            f.append(("unclosed_span_accepted", ctx))
        else:
            got = [(t.name, t.span[0], t.span[1], t.value) for t in toks]
            if got != ref:
                k = next((i for i, (a, b) in enumerate(zip(got, ref)) if a != b), min(len(got), len(ref)))
                bucket = "span_token_region_wrong" if any(r[0] in ("HD", "PW") for r in ref[:k + 1]) else "token_stream_differs"
                f.append((bucket, f"{ctx}: token {k} is {got[k] if k < len(got) else None!r}, the text has "
                                  f"{ref[k] if k < len(ref) else None!r}"))
            for r in ref:
                if r[0] in ("HD", "PW"):
                    classes.add("closed_span")
                    if "EOT" in r[3]:
                        classes.add("closer_characters_inside_the_body")
                        nt = True
                    if r[1][0] != r[2][0]:
                        classes.add("multi_line_span_token")
    return Outcome(nt, sorted(classes), f[:3], key=[kind, text, bool(case.get("as_list"))])


@st.composite
def st_ctx_case(draw):
    piece = st.sampled_from(["<<<", "%w", "EOT", "EOT", "EOTx", "xEOT", " ", " ", "ab", "7", ";", "=", "<", "<EOT", " EOT", "EOT;",
                             "\t", "EOT EOT"])
    lines = ["".join(draw(st.lists(piece, max_size=6))) for _ in range(draw(st.integers(1, 5)))]
    if draw(st.booleans()):
        # a span opened early and closed by a line of its own at the end: whatever stands in between is its body
        lines[0] = draw(st.sampled_from(["", "ab ", "7="])) + draw(st.sampled_from(["<<<", "%w"])) + lines[0]
        lines.append("EOT" + draw(st.sampled_from(["", ";", " ab"])))
    return {"kind": draw(st.sampled_from(sorted(CTX_CLOSERS))), "lines": lines, "as_list": draw(st.booleans())}


def regression_cases():
    # F2: "ab\ncd" - first token of the second line; F3: EXPR -> TERM (empty factorisation suffix) followed by blanks
    yield {"grammar": "fixed", "smart": True, "inputs": [
        {"toks": [["WORD", 0], ["SEMI", 0], ["WORD", 1], ["SEMI", 0]], "seps": ["", "", "\n", "", ""], "as_list": False},
        {"toks": [["WORD", 0], ["LPAR", 0], ["NUM", 1], ["RPAR", 0], ["SEMI", 0]], "seps": ["", "", "", "   ", "", ""],
         "as_list": False}]}


def parts(tier):
    k = 1 if tier == "quick" else 40
    return [
        Part("regressions", evaluate, enumerate=regression_cases, exhaustive=True),
        Part("layouts", evaluate, strategy=st_case, examples=3000 * k),
        Part("arbitrary_text", evaluate, strategy=st_text_case, examples=6000 * k),
        Part("same_length_texts", eval_same_length_texts, strategy=st_same_length, examples=600 * k,
             note="streams of equally long texts parsed and dropped one after the other (identity / length keyed caches)"),
        Part("context_spans", eval_ctx_spans, strategy=st_ctx_case, examples=2500 * k,
             note="span tokens whose closer regex depends on what stands before / behind it (line start, look-behind, word boundary)"),
    ]


TECHNIQUE = "property-based testing (Hypothesis): a layout generator that knows the exact (line, column) of every token it emits; spans of leaves, inner nodes, empty nodes and the full token stream are compared with those coordinates; token stream of context-dependent span closers against a hand-written scanner"
LEVEL_TEXT = ("Exploration: ~3k generated cases x ~4 texts per quick run (120k cases thorough) over a fixed rich grammar and random grammars; "
              "every token and every tree node is checked against coordinates computed by the renderer, get_orig_text against the source "
              "slice, and the complete token stream (skipped tokens included) against adjacency / monotonicity / coverage invariants.")
LEVEL_NOTE = "Trusted: vlib/grammar.render (position bookkeeping, 20 lines), the span algebra in the check. See ASSUMPTIONS for the reading of inner-node ends."
