"""C18 - objects read from a sheet match their source cells.

The expected objects are computed from the generated grid (never from the reader): own end-of-table
rule on the raw sheet, own fill-down for ladder sheets, own converters, own title binding.
"""
from hypothesis import strategies as st

from vlib.core import Outcome, Part

ID = "C18"
RULE = ("fake worksheets: 0-3 leading blank rows, 0-2 leading untitled columns, title row with the known columns in "
        "generated order, one contiguous run of 0-4 unknown columns (the range when a ranged attribute exists), blank-titled "
        "columns, titles with surrounding blanks; 0-12 data rows with blank cells; an end row and trailing garbage; both "
        "stop_on rules; plain or ladder (leading runs of blank cells meaning 'same as above', also whitespace-only cells); "
        "attribute rule sets with 1-2 id attributes, required / optional (default value or factory) / external / ranged "
        "(CellRangeDict, CellRangeSet) attributes and the converters cell_str/int/bool/list/set; entry points iter_table, "
        "read_table, the TableReader mixin and XlsTableReader with two object classes. Non-trivial = a ladder run spanning "
        ">=2 rows or >=2 columns, or a ranged attribute with known columns on both sides, or an absent optional column; "
        "distinct by case hash."
        " Also: title cells holding numbers / booleans; columns only the second object class knows; entries mixin_interleaved (lazy read interleaved with a read of a mirrored sheet) and iter_table_values_used (the caller changes produced list / set / dict values, the sheet is read again).")
ASSUMPTIONS = [
    "blank = None or whitespace-only string; id cells are None or valid values (never whitespace-only strings)",
    "unknown columns form one contiguous run with unique titles; all titles unique",
    "the end-of-table rule is evaluated on the raw sheet (also for ladder sheets with stop_on='blank first')",
    "ranged attribute origin without key is only required to name two of the expected coordinates ('first:last' order not judged)",
    "a ranged attribute without any column is declared with an empty-container default",
    "cell values are valid for the declared converter",
]


# ---------------------------------------------------------------------------
# fake worksheet
# ---------------------------------------------------------------------------

def col_name(i):
    s = ""
    i += 1
    while i:
        i, r = divmod(i - 1, 26)
        s = chr(65 + r) + s
    return s


class WS:
    def __init__(self, title, grid):
        self.title = title
        self.rows = [[Cell(self, "%s%d" % (col_name(c), r + 1), v) for c, v in enumerate(row)]
                     for r, row in enumerate(grid)]

    def iter_rows(self):
        for r in self.rows:
            yield list(r)


class Cell:
    __slots__ = ("parent", "coordinate", "value")

    def __init__(self, parent, coordinate, value):
        self.parent, self.coordinate, self.value = parent, coordinate, value

    def __repr__(self):
        return f"<Cell {self.coordinate}={self.value!r}>"


# ---------------------------------------------------------------------------
# reference
# ---------------------------------------------------------------------------

def is_blank(v):
    return v is None or (isinstance(v, str) and v.strip() == "")


def conv(kind, v):
    if kind == "str":
        return None if v is None else str(v).strip()
    if kind == "int":
        return v
    if kind == "bool":
        return v in ("v", "1", "True") or v is True or (v == 1 and not isinstance(v, str))
    if kind in ("list", "set"):
        if v is None:
            return None
        items = [x.strip() for x in v.replace("\n", ",").split(",")]
        items = [x for x in items if x]
        return items if kind == "list" else set(items)
    raise AssertionError(kind)


def build_grid(case):
    ncols = len(case["columns"])
    lead = case.get("lead_cols", 0)
    width = lead + ncols
    grid = [[None] * width for _ in range(case.get("lead_blank", 0))]
    title_row = len(grid)
    # a title cell holds a str, or (c["raw"]) a number / boolean whose str() is the title
    grid.append([None] * lead + [c["raw"] if "raw" in c else (c["title"] if c["title"] != "" else None)
                                 for c in case["columns"]])
    for r in case["rows"]:
        grid.append([None] * lead + list(r))
    for r in case.get("tail", []):
        grid.append((list(r) + [None] * width)[:width])
    return grid, title_row, lead


class Candidates:
    """expected value of a ranged attribute whose range holds a repeated title: {title: [(value, coordinate), ...]}"""

    def __init__(self, kind, cand):
        self.kind, self.cand = kind, cand


def expected_objects(case):
    """-> list (one entry per data row): None | {attr: (value, origin)} where origin is a coordinate string,
    '<skipped column>', '<n/a>' or for ranged attrs a dict key -> coordinate"""
    grid, title_row, lead = build_grid(case)
    cols = case["columns"]
    titles = [("" if c["title"] == "" else c["title"].strip()) for c in cols]
    first_titled = next((i for i, t in enumerate(titles) if t), None)
    known = {a["col"].strip() for a in case["attrs"] if a["kind"] in ("simple", "optional")}
    if case.get("second_reader"):
        known |= {a["col"].strip() for a in case["second_reader"]}
    # range = first contiguous run of titled columns that are not known
    rng = []
    started = False
    for i, t in enumerate(titles):
        notrange = (not t) or t in known
        if notrange:
            if started:
                break
            continue
        started = True
        rng.append(i)
    out = []
    prev = None   # filled previous row: list of (value, (r, c)) per sheet column
    r = title_row + 1
    while r < len(grid):
        raw = grid[r]
        if case["end"] == "blank first":
            if is_blank(raw[0]):
                break
        elif all(is_blank(v) for v in raw):
            break
        cur = [(v, (r, c)) for c, v in enumerate(raw)]
        if case["ladder"] and first_titled is not None and prev is not None:
            for c in range(lead + first_titled, len(cur)):
                if is_blank(cur[c][0]):
                    cur[c] = prev[c]
                else:
                    break
        prev = cur

        def cell(ci):
            v, (rr, cc) = cur[lead + ci]
            return v, "%s%d" % (col_name(cc), rr + 1)
        obj = {}
        id_raw = []
        for a in case["attrs"]:
            k = a["kind"]
            if k == "external":
                obj[a["name"]] = (a.get("default"), "<n/a>")
            elif k in ("simple", "optional"):
                t = a["col"].strip()
                if t in titles:
                    v, co = cell(titles.index(t))
                    obj[a["name"]] = (conv(a["conv"], v), co)
                    if a.get("id"):
                        id_raw.append(v)
                else:
                    d = a.get("default")
                    obj[a["name"]] = ([] if d == ["factory_list"] else d, "<skipped column>")
            elif k in ("range_dict", "range_set") and len({titles[ci] for ci in rng}) < len(rng):
                # a title occurs twice inside the range: which of the columns stands for it is not specified, but value
                # and reported origin must belong to the same cell -> candidates per title
                cand = {}
                for ci in rng:
                    v, co = cell(ci)
                    cand.setdefault(titles[ci], []).append((conv(a["conv"] if k == "range_dict" else "bool", v), co))
                obj[a["name"]] = (Candidates(k, cand), None)
            elif k == "range_dict":
                vals, orig = {}, {}
                for ci in rng:
                    v, co = cell(ci)
                    vals[titles[ci]] = conv(a["conv"], v)
                    orig[titles[ci]] = co
                obj[a["name"]] = (vals, orig)
            elif k == "range_set":
                vals, orig = set(), {}
                for ci in rng:
                    v, co = cell(ci)
                    if conv("bool", v):
                        vals.add(titles[ci])
                    orig[titles[ci]] = co
                obj[a["name"]] = (vals, orig)
        if id_raw and all(v is None for v in id_raw):
            out.append(None)
        elif id_raw and all(obj[a["name"]][0] is None for a in case["attrs"] if a.get("id")):
            out.append(None)
        else:
            out.append(obj)
        r += 1
    return out, rng, titles


# ---------------------------------------------------------------------------

def make_rules(X, case, attrs=None):
    convs = {"str": X.cell_str, "int": X.cell_int, "bool": X.cell_bool, "list": X.cell_list, "set": X.cell_set}
    rules = {}
    for a in (attrs if attrs is not None else case["attrs"]):
        k = a["kind"]
        if k == "external":
            if a.get("default") is None and a.get("as_none", True):
                rules[a["name"]] = None
            else:
                rules[a["name"]] = X.XlsRecordAttrReadRules(a["name"], None, None, default_val=a.get("default"))
        elif k == "simple":
            rules[a["name"]] = (a["col"], convs[a["conv"]])
        elif k == "optional":
            d = a.get("default")
            rules[a["name"]] = (a["col"], convs[a["conv"]], {"default_val": (list if d == ["factory_list"] else d)})
        elif k == "range_dict":
            opts = {"default_val": dict} if a.get("with_default") else {}
            rules[a["name"]] = ("*", X.CellRangeDict(convs[a["conv"]]), opts) if opts else ("*", X.CellRangeDict(convs[a["conv"]]))
        elif k == "range_set":
            opts = {"default_val": set} if a.get("with_default") else {}
            rs = X.CellRangeSet(X.cell_bool)
            rules[a["name"]] = ("*", rs, opts) if opts else ("*", rs)
    return rules


class _Snap:
    """an object as it was when the reader produced it: attribute values are copied at that moment, origins are asked from
    the object itself"""

    def __init__(self, obj, names):
        import copy
        self.__dict__["_obj"] = obj
        self.__dict__["_vals"] = {n: copy.deepcopy(getattr(obj, n)) for n in names}

    def __getattr__(self, name):
        if name in self._vals:
            return self._vals[name]
        return getattr(self._obj, name)

    def __repr__(self):
        return "snapshot of " + repr(self._obj)


def _use_up(obj, names):
    """what a caller may do with an object it was given: its list / set / dict values are the caller's"""
    for n in names:
        v = getattr(obj, n, None)
        if isinstance(v, list):
            v.append("caller's addition")
            v.reverse()
        elif isinstance(v, set):
            v.add("caller's addition")
        elif isinstance(v, dict):
            v["caller's addition"] = 1


def evaluate(case):
    import ak.xlsread as X
    f = []
    classes = set()
    grid, title_row, lead = build_grid(case)
    ws = WS(case.get("title", "Sheet1"), grid)
    attrs = case["attrs"]
    nid = sum(1 for a in attrs if a.get("id"))
    exp, rng, titles = expected_objects(case)

    class Obj(X.XlsObject):
        _ATTRS = [a["name"] for a in attrs]
        _NUM_ID_ATTRS = nid
    entry = case.get("entry", "read_table")
    kw = {"stop_on": case["end"], "ladder_format": bool(case["ladder"])}
    try:
        rules = make_rules(X, case)
        if entry == "iter_table":
            got = list(X.iter_table(ws, Obj, rules, **kw))
        elif entry == "iter_table_values_used":
            # lazy reading; the caller changes the list / set / dict values of every object as soon as it gets it (they are
            # its own) - what was produced is judged as it was at that moment; then the sheet is read again
            names = [a["name"] for a in attrs]
            first = []
            for o in X.iter_table(ws, Obj, rules, **kw):
                if o is not None:
                    first.append(_Snap(o, names))
                    _use_up(o, names)
                else:
                    first.append(None)
            got = []
            for o in X.iter_table(ws, Obj, rules, **kw):
                got.append(None if o is None else _Snap(o, names))
                if o is not None:
                    _use_up(o, names)
            if len(first) == len(got):
                # (the first pass is judged too: where the two passes differ, report the first one)
                for i, (x, y) in enumerate(zip(first, got)):
                    if (x is None) != (y is None) or (x is not None and any(x._vals[n] != y._vals[n] for n in names)):
                        got = first
                        break
            classes.add("values_of_produced_objects_changed_by_the_caller")
        elif entry == "read_table":
            got = X.read_table(ws, Obj, rules, **kw)
        elif entry == "mixin":
            class MObj(X.XlsObject, X.TableReader):
                _ATTRS = [a["name"] for a in attrs]
                _NUM_ID_ATTRS = nid
                ATTR_RULES = rules
                STOP_ON = case["end"]
                LADDER_FORMAT = bool(case["ladder"])
            got = MObj.read_list(ws)
        elif entry == "mixin_interleaved":
            # two reads of the same reader class alive at once: the first sheet is read lazily (iter_xls) and, after its
            # first object, another sheet with the same columns in reverse order is read completely
            class IObj(X.XlsObject, X.TableReader):
                _ATTRS = [a["name"] for a in attrs]
                _NUM_ID_ATTRS = nid
                ATTR_RULES = rules
                STOP_ON = case["end"]
                LADDER_FORMAT = bool(case["ladder"])
            it = iter(IObj.iter_xls(ws))
            got = []
            for o in it:
                got.append(o)
                break
            try:
                list(IObj.iter_xls(WS("Other", [row[:lead] + row[lead:][::-1] for row in grid])))
            except Exception:   # noqa   (the mirrored sheet need not be a valid one)
                pass
            got.extend(it)
            classes.add("lazy_read_interleaved_with_a_read_of_another_sheet")
        elif entry == "mixin_subclass":
            # a reader class that inherits from another reader class and overrides ATTR_RULES; the parent class is used first
            alt = []
            for a in attrs:
                a2 = dict(a)
                if a2["kind"] == "optional" and a2.get("default") not in (None, ["factory_list"]):
                    a2["default"] = (a2["default"] + 1) if isinstance(a2["default"], int) and not isinstance(a2["default"], bool) \
                        else str(a2["default"]) + "-parent"
                alt.append(a2)
            simple = [a for a in alt if a["kind"] == "simple" and not a.get("id")]
            for x, y in zip(simple, simple[1:]):
                if x["conv"] == y["conv"]:
                    x["col"], y["col"] = y["col"], x["col"]          # the parent reads these two attributes from swapped columns
                    break

            class PObj(X.XlsObject, X.TableReader):
                _ATTRS = [a["name"] for a in attrs]
                _NUM_ID_ATTRS = nid
                ATTR_RULES = make_rules(X, case, alt)
                STOP_ON = case["end"]
                LADDER_FORMAT = bool(case["ladder"])
            try:
                PObj.read_list(ws)
            except Exception:   # noqa
                pass

            class CObj(PObj):
                ATTR_RULES = rules
            if case.get("rules_edit") == "in_place":
                # ... or the class keeps its ATTR_RULES dict and the entries are replaced in it between two reads
                PObj.ATTR_RULES.clear()
                PObj.ATTR_RULES.update(rules)
                got = PObj.read_list(ws)
                classes.add("rules_dict_changed_in_place_between_reads")
            else:
                got = CObj.read_list(ws)
            classes.add("reader_subclass_overrides_rules_parent_used_first")
        else:
            sec = case.get("second_reader") or []

            class Obj2(X.XlsObject):
                _ATTRS = [a["name"] for a in sec]
                _NUM_ID_ATTRS = 0
            tr = X.XlsTableReader(X.XlsObjReadRules(Obj, rules), X.XlsObjReadRules(Obj2, make_rules(X, case, sec)))
            pairs = list(tr.iter_table(ws, **kw))
            got = [p[0] for p in pairs]
            # second objects: plain attribute values from their own columns
            for ri, p in enumerate(pairs):
                o2 = p[1]
                for a in sec:
                    if o2 is None:
                        f.append(("second_reader_object_missing", f"row {ri}"))
                        break
    except Exception as e:   # noqa
        import traceback
        where = traceback.extract_tb(e.__traceback__)[-1].name
        return Outcome(True, sorted(classes), [("reader_raises_%s_in_%s" % (type(e).__name__, where),
                                                f"{e}; entry={entry}")])
    if len(got) != len(exp):
        f.append(("wrong_number_of_data_rows_" + ("ladder" if case["ladder"] else "plain") + "_" + case["end"].replace(" ", "_") +
                  ("_via_mixin" if entry == "mixin" else ""),
                  f"{len(got)} objects, expected {len(exp)}; grid={grid!r}"))
    for ri, (g, e) in enumerate(zip(got, exp)):
        if f:
            break
        if e is None or g is None:
            if (e is None) != (g is None):
                f.append(("object_presence_wrong", f"data row {ri}: got {g!r}, expected {'None' if e is None else 'an object'}"))
            continue
        for a in attrs:
            name = a["name"]
            ev, eo = e[name]
            try:
                gv = getattr(g, name)
                go = g.get_attr_origin(name)
            except Exception as ex:   # noqa
                f.append(("attribute_access_raises_" + type(ex).__name__, f"row {ri} {name}: {ex}"))
                break
            if isinstance(ev, Candidates):
                classes.add("repeated_title_inside_range")
                ok_type = isinstance(gv, dict if ev.kind == "range_dict" else set)
                if not ok_type or (ev.kind == "range_dict" and set(gv) != set(ev.cand)) or \
                        (ev.kind == "range_set" and not set(gv) <= set(ev.cand)):
                    f.append(("wrong_value_range_with_repeated_title", f"row {ri} {name}: {gv!r}; candidates {ev.cand!r}"))
                    break
                for key, cl in ev.cand.items():
                    try:
                        gk = g.get_attr_origin(name, key)
                    except Exception as ex:   # noqa
                        f.append(("range_key_origin_raises_" + type(ex).__name__, f"row {ri} {name}[{key}]: {ex}"))
                        break
                    at = [v for v, co in cl if co == gk]
                    if not at:
                        f.append(("wrong_origin_range_key", f"row {ri} {name}[{key!r}]: {gk!r} is none of {[co for _, co in cl]!r}"))
                        break
                    have = gv[key] if ev.kind == "range_dict" else (key in gv)
                    want = at[0] if ev.kind == "range_dict" else bool(at[0])
                    if have != want:
                        f.append(("value_is_not_the_conversion_of_the_cell_at_the_reported_origin",
                                  f"row {ri} {name}[{key!r}]: value {have!r}, origin {gk!r} holds {want!r}; candidates {cl!r}"))
                        break
                continue
            if gv != ev or type(gv) is not type(ev):
                tag = "ladder_" if case["ladder"] else ""
                f.append((f"wrong_{tag}value_{a['kind']}", f"data row {ri} attr {name}: got {gv!r}, expected {ev!r} "
                          f"(origin reported {go!r}, expected {eo!r}); grid={grid!r}"))
                break
            if isinstance(eo, dict):
                for key, co in eo.items():
                    try:
                        gk = g.get_attr_origin(name, key)
                    except Exception as ex:   # noqa
                        f.append(("range_key_origin_raises_" + type(ex).__name__, f"row {ri} {name}[{key}]: {ex}"))
                        break
                    if gk != co:
                        f.append(("wrong_origin_range_key", f"row {ri} {name}[{key!r}]: {gk!r} expected {co!r}"))
                        break
                coords = set(eo.values())
                if not coords:
                    ok = go == "<skipped column>"
                elif len(coords) == 1:
                    ok = go in coords
                else:
                    parts_ = go.split(":")
                    ok = len(parts_) == 2 and parts_[0] in coords and parts_[1] in coords and parts_[0] != parts_[1]
                if not ok:
                    f.append(("wrong_origin_range", f"row {ri} {name}: {go!r} expected from {sorted(coords)}"))
            elif go != eo:
                tag = "ladder_" if case["ladder"] else ""
                f.append((f"wrong_{tag}origin", f"data row {ri} attr {name}: origin {go!r}, expected {eo!r}; grid={grid!r}"))
                break
            else:
                wsn = g.get_attr_origin(name, incl_ws=True)
                t = case.get("title", "Sheet1")
                pref = ("'%s'" % t if " " in t else t) + " "
                if wsn != pref + eo:
                    f.append(("wrong_origin_with_worksheet", f"{wsn!r} expected {pref + eo!r}"))
    # classes
    if case["ladder"]:
        classes.add("ladder")
        for k in case.get("ladder_info", []):
            classes.add(k)
    classes.add("end_" + case["end"].replace(" ", "_"))
    classes.add("entry_" + entry)
    if rng and any(a["kind"].startswith("range") for a in attrs):
        left = any(t and i < rng[0] for i, t in enumerate(titles))
        right = any(t and i > rng[-1] for i, t in enumerate(titles))
        if left and right:
            classes.add("range_with_known_columns_on_both_sides")
    if any(a["kind"] == "optional" and a["col"].strip() not in titles for a in attrs):
        classes.add("optional_column_absent")
    if any(e is None for e in exp):
        classes.add("row_without_id_gives_None")
    if case.get("tail"):
        classes.add("garbage_after_end_row")
    nt = bool(classes & {"ladder_run_2_rows", "ladder_run_2_cols", "range_with_known_columns_on_both_sides",
                         "optional_column_absent"})
    return Outcome(nt, sorted(classes), f[:4], evals=1)


# ---------------------------------------------------------------------------

def st_val(kind, allow_blank=True, idcol=False):
    if kind == "int":
        base = st.integers(-5, 2000) | st.just(0)
        return (base | st.none()) if allow_blank else base
    if kind == "str":
        base = st.text("abc xyz-", min_size=1, max_size=6).filter(lambda s: s.strip() != "") | st.integers(0, 99) | \
            st.just("0") | st.just(0) | st.sampled_from([1, 1.0, True, "1", 0.0, False, 7, 7.0, "True", 2.5])
        if idcol:
            return (base | st.none()) if allow_blank else base
        return (base | st.none() | st.sampled_from(["", " ", "  "])) if allow_blank else base
    if kind == "bool":
        return st.sampled_from([None, "", False, "False", "v", 1, "1", True, "True"])
    if kind in ("list", "set"):
        return st.one_of(st.none(), st.lists(st.text("pqr ", max_size=3), max_size=4).map(
            lambda xs: ",".join(xs)), st.lists(st.text("pq", min_size=1, max_size=2), max_size=3).map("\n".join),
            st.just(" a , ,b\n\nc,"))
    raise AssertionError(kind)


@st.composite
def st_case(draw):
    # attributes
    nid = draw(st.integers(1, 2))
    attrs = []
    names = ["ida", "idb", "p", "q", "r", "s", "t"]
    n_more = draw(st.integers(0, 4))
    have_range = False
    for k in range(nid + n_more):
        name = names[k]
        if k < nid:
            attrs.append({"name": name, "kind": "simple", "conv": draw(st.sampled_from(["int", "str"])),
                          "col": "Col " + name, "id": True})
            continue
        kind = draw(st.sampled_from(["simple", "simple", "optional", "optional", "external", "range"]))
        if kind == "range":
            if have_range:
                kind = "simple"
            else:
                have_range = True
                rk = draw(st.sampled_from(["range_dict", "range_set"]))
                attrs.append({"name": name, "kind": rk, "conv": draw(st.sampled_from(["str", "int", "bool"])),
                              "with_default": False})
                continue
        conv_ = draw(st.sampled_from(["str", "int", "bool", "list", "set"]))
        a = {"name": name, "kind": kind, "conv": conv_, "col": ("Col " + name) if draw(st.booleans()) else name.upper()}
        if kind == "optional":
            a["default"] = draw(st.sampled_from([None, 7, "dflt", ["factory_list"]]))
            a["present"] = draw(st.booleans())
        if kind == "external":
            a["default"] = draw(st.sampled_from([None, None, 5, "ext"]))
            a["as_none"] = draw(st.booleans())
        attrs.append(a)
    # columns
    cols = []
    for a in attrs:
        if a["kind"] == "simple" or (a["kind"] == "optional" and a.get("present")):
            pad = draw(st.sampled_from(["", "", " "]))
            cols.append({"title": pad + a["col"] + pad, "conv": a["conv"], "attr": a["name"], "id": bool(a.get("id"))})
    cols = list(draw(st.permutations(cols)))
    n_unknown = draw(st.integers(0, 4))
    rattr = next((a for a in attrs if a["kind"].startswith("range")), None)
    if rattr is not None and n_unknown == 0:
        if draw(st.booleans()):
            n_unknown = draw(st.integers(1, 3))
        else:
            rattr["with_default"] = True
    uconv = "bool" if (rattr and rattr["kind"] == "range_set") else (rattr["conv"] if rattr else "str")
    unknown = [{"title": "U%d" % i, "conv": uconv, "attr": None} for i in range(n_unknown)]
    if rattr is not None and n_unknown >= 2 and draw(st.integers(0, 3)) == 0:
        i, j = draw(st.integers(0, n_unknown - 1)), draw(st.integers(0, n_unknown - 1))
        if i != j:
            unknown[j]["title"] = unknown[i]["title"]        # the same title twice inside the range
    if n_unknown and draw(st.integers(0, 3)) == 0:
        # title cells that hold numbers / booleans, not strings (rounds 0, 1, 2 ...; flags False / True)
        raws = draw(st.sampled_from([[0, 1, 2, 3], [False, True, 2, 3], [0.0, 0.5, 1, 2], [3, 2, 1, 0], [-1, 0, 1, 2]]))
        for u, raw in zip(unknown, raws):
            u["raw"] = raw
            u["title"] = str(raw)
    pos = draw(st.integers(0, len(cols)))
    cols = cols[:pos] + unknown + cols[pos:]
    # blank-titled columns (not inside the unknown run when a range exists)
    for _ in range(draw(st.integers(0, 2))):
        p = draw(st.integers(0, len(cols)))
        if rattr is not None and n_unknown and pos < p < pos + n_unknown:
            continue
        cols.insert(p, {"title": "", "conv": "str", "attr": None})
        if p <= pos:
            pos += 1
    # a second run of unknown titled columns (side notes) behind a separator: never part of the range
    if n_unknown and draw(st.integers(0, 2)) == 0:
        p2 = draw(st.integers(pos + n_unknown, len(cols)))
        while pos + n_unknown < p2 < len(cols) and cols[p2 - 1]["title"] == "" and cols[p2]["title"] == "":
            p2 += 1
        extra = [{"title": "V%d" % i, "conv": draw(st.sampled_from(["str", uconv])), "attr": None}
                 for i in range(draw(st.integers(1, 2)))]
        if p2 == pos + n_unknown or draw(st.booleans()):
            extra.insert(0, {"title": "", "conv": "str", "attr": None})
        cols = cols[:p2] + extra + cols[p2:]
    second = None
    entry = draw(st.sampled_from(["iter_table", "read_table", "read_table", "mixin", "two_readers", "mixin_subclass", "mixin_interleaved",
                                   "iter_table_values_used"]))
    if entry == "two_readers":
        # second object class reads (as plain str) some of the same known columns
        cand = [c for c in cols if c["attr"] is not None]
        pick = draw(st.lists(st.sampled_from(cand), min_size=1, max_size=2, unique_by=lambda c: c["attr"]))
        second = [{"name": "x%d" % i, "kind": "simple", "conv": "str" if c["conv"] not in ("int",) else "int",
                   "col": c["title"].strip()} for i, c in enumerate(pick)]
        for s_, c in zip(second, pick):
            s_["conv"] = c["conv"]
        # ... and columns that only the second object knows: the last / first column of the unknown run (the ranged
        # attribute of the first object ends before it), a side-note column
        own = [c for i, c in enumerate(cols) if c["attr"] is None and c["title"].strip() and
               [d["title"].strip() for d in cols].count(c["title"].strip()) == 1 and
               (c["title"].startswith("V") or (i in (pos, pos + n_unknown - 1) and (rattr is None or n_unknown >= 2)))]
        if own and draw(st.booleans()):
            c = draw(st.sampled_from(own))
            second.append({"name": "x%d" % len(second), "kind": "simple", "conv": c["conv"], "col": c["title"].strip()})
    end = draw(st.sampled_from(["blank all", "blank all", "blank first"]))
    ladder = draw(st.booleans())
    lead_cols = 0 if end == "blank first" else draw(st.sampled_from([0, 0, 0, 1, 2]))
    # rows (filled grid first)
    nrows = draw(st.integers(0, 12))
    rows = []
    for r in range(nrows):
        row = []
        no_id_row = draw(st.integers(0, 4)) == 0     # a data row without id: gives None, but still is "the row above"
        for ci, c in enumerate(cols):
            if no_id_row and c.get("id"):
                row.append(None)
                continue
            if end == "blank first" and ci == 0 and not c.get("id"):
                row.append(draw(st_val(c["conv"], allow_blank=(draw(st.integers(0, 6)) == 0))))
            elif c.get("id"):
                row.append(draw(st_val(c["conv"], allow_blank=(draw(st.integers(0, 5)) == 0), idcol=True)))
            else:
                row.append(draw(st_val(c["conv"])))
        rows.append(row)
    ladder_info = set()
    if ladder and rows:
        # blank leading runs: the run starts at the first titled column of the sheet
        first_titled = next((i for i, c in enumerate(cols) if c["title"].strip()), None)
        if first_titled is not None:
            run_rows = 0
            for r in range(1, len(rows)):
                if draw(st.integers(0, 2)) == 0:
                    run_rows = 0
                    continue
                ln = draw(st.integers(1, max(1, len(cols) - first_titled)))
                # the cell after the run must be non-blank, otherwise the run is simply longer - fine either way
                for c in range(first_titled, min(len(cols), first_titled + ln)):
                    rows[r][c] = draw(st.sampled_from([None, None, None, "", " "])) if cols[c]["conv"] in ("str",) and \
                        not cols[c].get("id") else None
                run_rows += 1
                if ln >= 2:
                    ladder_info.add("ladder_run_2_cols")
                if run_rows >= 2:
                    ladder_info.add("ladder_run_2_rows")
    tail = []
    if draw(st.booleans()):
        width = lead_cols + len(cols)
        tail = [[None] * width] + [[draw(st.sampled_from([None, "junk", 3])) for _ in range(width)]
                                   for _ in range(draw(st.integers(0, 2)))]
    return {"title": draw(st.sampled_from(["Sheet1", "My Sheet", "s"])), "lead_blank": draw(st.integers(0, 3)),
            "lead_cols": lead_cols, "columns": [dict({"title": c["title"]}, **({"raw": c["raw"]} if "raw" in c else {})) for c in cols], "attrs": attrs, "rows": rows,
            "end": end, "ladder": ladder, "tail": tail, "entry": entry, "second_reader": second,
            "ladder_info": sorted(ladder_info), "rules_edit": draw(st.sampled_from(["subclass", "in_place"]))}


def eval_bad_cell(case):
    """one data cell of a column that feeds an attribute does not convert (text in an int column, ...): no object may be
    produced from that row - the value could not be 'obtained by converting the cell at the reported origin'"""
    import ak.xlsread as X
    grid, title_row, lead = build_grid(case)
    ws = WS(case.get("title", "Sheet1"), grid)
    attrs = case["attrs"]
    nid = sum(1 for a in attrs if a.get("id"))

    class Obj(X.XlsObject):
        _ATTRS = [a["name"] for a in attrs]
        _NUM_ID_ATTRS = nid
    r_bad, c_bad, attr_name = case["bad_cell"]
    got, raised = [], None
    try:
        for o in X.iter_table(ws, Obj, make_rules(X, case), stop_on=case["end"], ladder_format=bool(case["ladder"])):
            got.append(o)
    except Exception as e:   # noqa
        raised = e
    f = []
    classes = ["unconvertible_cell", "reader_raises" if raised is not None else "reader_does_not_raise"]
    if raised is None and len(got) > r_bad and got[r_bad] is not None:
        o = got[r_bad]
        try:
            val = getattr(o, attr_name)
            org = o.get_attr_origin(attr_name)
        except Exception as e:   # noqa
            val, org = "<%s>" % type(e).__name__, "?"
        f.append(("object_produced_from_unconvertible_cell", f"data row {r_bad}: attribute {attr_name} = {val!r}, origin {org!r}, "
                  f"cell holds {case['rows'][r_bad][c_bad]!r}; grid={grid!r}"))
    return Outcome(raised is not None, classes, f, key=[case["rows"], case["bad_cell"], case["end"], case["ladder"]])


@st.composite
def st_bad_cell_case(draw):
    case = draw(st_case())
    case["entry"] = "iter_table"
    cols = case["columns"]
    cands = []
    byname = {a.get("col", "").strip(): a for a in case["attrs"] if a["kind"] in ("simple", "optional")}
    for ci, c in enumerate(cols):
        a = byname.get(c["title"].strip())
        if a is not None and a["conv"] in ("int", "bool", "list", "set"):
            cands.append((ci, a))
    if not cands or not case["rows"]:
        case["bad_cell"] = [0, 0, case["attrs"][0]["name"]]
        case["rows"] = []          # nothing to spoil: degenerates to an empty table
        return case
    ci, a = draw(st.sampled_from(cands))
    r = draw(st.integers(0, len(case["rows"]) - 1))
    bad = {"int": draw(st.sampled_from(["20 (tbc)", "x", 2.5, "7"])), "bool": draw(st.sampled_from(["maybe", 2, "yes"])),
           "list": draw(st.sampled_from([5, 2.5, True])), "set": draw(st.sampled_from([5, 2.5, True]))}[a["conv"]]
    case["rows"][r][ci] = bad
    case["bad_cell"] = [r, ci, a["name"]]
    return case


def parts(tier):
    k = 1 if tier == "quick" else 40
    return [Part("sheets", evaluate, strategy=st_case, examples=6000 * k),
            Part("unconvertible_cells", eval_bad_cell, strategy=st_bad_cell_case, examples=1500 * k,
                 note="a cell that does not convert: the row must not yield an object")]


TECHNIQUE = "property-based testing (Hypothesis) with a reference reader written from the statement (raw-sheet end rule, fill-down, title binding, converters) and a metamorphic ladder relation; origins checked coordinate by coordinate"
LEVEL_TEXT = ("Exploration: ~6k generated (sheet, rule set, options) cases per quick run (240k thorough); every produced object is compared "
              "attribute by attribute, value and origin, with the reference computed from the generated grid; ladder sheets are compared "
              "with their filled-in form including the coordinates of the cells that actually hold the values.")
LEVEL_NOTE = "Trusted: the reference reader in the check (~100 lines), the fake worksheet, Hypothesis. Domain restrictions in ASSUMPTIONS."
