"""C20 - short uuid strings are a bijective encoding of UUIDs.

Oracle: an own base-57 little-endian codec written from the statement (alphabet =
digits and letters without the look-alikes 0 1 I O l), never the package's tables.
"""
import uuid as _uuid

from hypothesis import strategies as st

from vlib.core import Outcome, Part

ID = "C20"
RULE = ("ints: 0<=n<2**128 from a boundary-heavy strategy plus the exhaustively enumerated "
        "carry family 57**k-1, 57**k, 57**k+1, d*57**k, 2**k-1, 2**k, 2**k+1 (part carry_enum, "
        "exhaustive); strings: valid encodings, 22-letter strings denoting >= 2**128, wrong "
        "lengths 0..40, one foreign character at every position, canonical/hex/braced/urn forms, "
        "arbitrary text; part interleaved_calls: two threads convert different values (3 and 2 round trips), every "
        "single-preemption schedule at opcode granularity inside ak/short_uuid.py (harness-owned scheduler). Non-trivial = an integer with >=2 base-57 digits, or a string that is a "
        "valid short form, a canonical form, or falls in a rejection class (wrong length, foreign "
        "char, overflow); distinct by value.")
ASSUMPTIONS = [
    "uuid_from_str is required to agree with uuid.UUID(s) whenever the standard library accepts s "
    "(braced / urn / hex forms are not demanded to fail)",
    "only str arguments are generated for the string side",
]

ALPHA = "".join(c for c in "0123456789ABCDEFGHIJKLMNOPQRSTUVWXYZabcdefghijklmnopqrstuvwxyz"
                if c not in "01IOl")
assert len(ALPHA) == 57
LIMIT = 1 << 128


def ref_encode(n):
    out = []
    for _ in range(22):
        n, d = divmod(n, 57)
        out.append(ALPHA[d])
    assert n == 0
    return "".join(out)


def ref_decode(s):
    """-> int or None if s is not a valid short form."""
    if len(s) != 22:
        return None
    n = 0
    for ch in reversed(s):
        i = ALPHA.find(ch)
        if i < 0 or len(ch) != 1:
            return None
        n = n * 57 + i
    return n if n < LIMIT else None


def _mod():
    import ak.short_uuid as m
    return m


def eval_int(case):
    n = int(case["n"])
    m = _mod()
    f = []
    u = _uuid.UUID(int=n)
    try:
        s = m.uuid_to_short_str(u)
    except Exception as e:   # noqa
        return Outcome(True, ["int"], [("to_short_raises", f"n={n}: {type(e).__name__}: {e}")])
    if not isinstance(s, str) or len(s) != 22 or any(c not in ALPHA for c in s):
        f.append(("encoding_not_22_alphabet_chars", f"n={n} -> {s!r}"))
    elif s != ref_encode(n):
        f.append(("encoding_differs_from_base57_reference", f"n={n} -> {s!r}, expected {ref_encode(n)!r}"))
    for fn in ("uuid_from_short_str", "uuid_from_str"):
        try:
            back = getattr(m, fn)(s)
            if back != u:
                f.append((fn + "_roundtrip_mismatch", f"n={n} -> {s!r} -> {back!r}"))
        except Exception as e:   # noqa
            f.append((fn + "_roundtrip_raises", f"n={n} -> {s!r}: {type(e).__name__}: {e}"))
    try:
        back = m.uuid_from_str(str(u))
        if back != u:
            f.append(("uuid_from_str_canonical_mismatch", f"{u} -> {back!r}"))
    except Exception as e:   # noqa
        f.append(("uuid_from_str_canonical_raises", f"{u}: {type(e).__name__}: {e}"))
    ndig = 0
    x = n
    while x:
        x //= 57
        ndig += 1
    classes = ["int", "digits_%02d" % ndig]
    return Outcome(ndig >= 2, classes, f, key=("i", n), evals=4)


def classify_str(s):
    if len(s) != 22:
        return "len_%s" % ("0" if not s else "lt22" if len(s) < 22 else "gt22")
    if any(c not in ALPHA for c in s):
        return "foreign_char"
    if ref_decode(s) is None:
        return "overflow"
    return "valid_short"


def eval_str(case):
    s = case["s"]
    m = _mod()
    f = []
    want = ref_decode(s)
    cls = classify_str(s)
    # uuid_from_short_str
    try:
        got = m.uuid_from_short_str(s)
        if want is None:
            f.append(("from_short_accepts_invalid_" + cls, f"{s!r} -> {got!r}"))
        elif got != _uuid.UUID(int=want):
            f.append(("from_short_wrong_value", f"{s!r} -> {got!r}, expected int {want}"))
    except ValueError:
        if want is not None:
            f.append(("from_short_rejects_valid", f"{s!r} (= {want})"))
    except Exception as e:   # noqa
        f.append(("from_short_raises_%s_on_%s" % (type(e).__name__, cls), f"{s!r}: {e!r}"))
    # uuid_from_str
    try:
        std = _uuid.UUID(s)
    except ValueError:
        std = None
    exp = std if std is not None else (None if want is None else _uuid.UUID(int=want))
    try:
        got = m.uuid_from_str(s)
        if exp is None:
            f.append(("from_str_accepts_invalid_" + cls, f"{s!r} -> {got!r}"))
        elif got != exp:
            f.append(("from_str_wrong_value", f"{s!r} -> {got!r}, expected {exp!r}"))
    except ValueError:
        if exp is not None:
            f.append(("from_str_rejects_valid", f"{s!r}"))
    except Exception as e:   # noqa
        f.append(("from_str_raises_%s_on_%s" % (type(e).__name__, cls), f"{s!r}: {e!r}"))
    classes = ["str", "str_" + cls] + (["str_stdlib_form"] if std is not None else [])
    nt = cls != "valid_short" or True
    if case.get("kind") == "padded":
        classes.append("str_valid_plus_junk_char")
    if std is None and cls.startswith("len_") and case.get("kind") == "text":
        nt = len(s) in (21, 23) or len(s) == 0
    return Outcome(nt, classes, f, key=("s", s), evals=2)


def evaluate(case):
    return eval_int(case) if "n" in case else eval_str(case)


def carry_family():
    seen = set()
    for k in range(0, 23):
        p = 57 ** k
        for n in (p - 1, p, p + 1, 2 * p, 56 * p, 56 * p + 1, (p - 1) // 56 * 56, (57 ** k - 1) // 56):
            for d in (1, 7, 56):
                for x in (n, n * d):
                    if 0 <= x < LIMIT and x not in seen:
                        seen.add(x)
                        yield {"n": x}
    for k in range(0, 129):
        for x in ((1 << k) - 1, 1 << k, (1 << k) + 1, LIMIT - (1 << k) if k < 128 else 0):
            if 0 <= x < LIMIT and x not in seen:
                seen.add(x)
                yield {"n": x}


def st_int():
    big = st.integers(0, LIMIT - 1)
    near_pow = st.builds(lambda k, d, m: min(LIMIT - 1, max(0, m * 57 ** k + d)),
                         st.integers(0, 22), st.integers(-3, 3), st.integers(1, 56))
    digits = st.lists(st.sampled_from([0, 0, 1, 55, 56]) | st.integers(0, 56), min_size=0, max_size=22).map(
        lambda ds: sum(d * 57 ** i for i, d in enumerate(ds)) % LIMIT)
    small = st.integers(0, 57 ** 3)
    return st.one_of(big, near_pow, digits, small).map(lambda n: {"n": n})


FOREIGN = "01IOl-_ .\t\néа中{}+/=~" + "٣２५𝟗²③\u0669\uff21\uff41\x7f\x80\u0131"


def st_str():
    valid = st.integers(0, LIMIT - 1).map(ref_encode) | st.lists(
        st.integers(0, 56), min_size=22, max_size=22).map(lambda ds: "".join(ALPHA[d] for d in ds))

    def with_foreign(s, pos, ch):
        pos %= len(s)
        return s[:pos] + ch + s[pos + 1:]
    foreign = st.builds(with_foreign, valid, st.integers(0, 21),
                        st.sampled_from(FOREIGN) | st.characters(blacklist_categories=["Cs"]))
    # overflow: 22 alphabet letters with value >= 2**128
    overflow = st.integers(LIMIT, 57 ** 22 - 1).map(
        lambda n: "".join(ALPHA[(n // 57 ** i) % 57] for i in range(22)))
    near_limit = st.integers(-5, 5).map(
        lambda d: "".join(ALPHA[((LIMIT + d) // 57 ** i) % 57] for i in range(22)))
    wrong_len = st.builds(lambda s, n, extra: (s + extra * 20)[:n] if n != 22 else s[:21],
                          valid, st.integers(0, 40), st.sampled_from(ALPHA))
    canon = st.integers(0, LIMIT - 1).map(lambda n: _uuid.UUID(int=n))
    forms = st.one_of(canon.map(str), canon.map(lambda u: u.hex), canon.map(lambda u: "{%s}" % u),
                      canon.map(lambda u: u.urn), canon.map(lambda u: str(u).upper()),
                      canon.map(lambda u: str(u)[:-1]), canon.map(lambda u: u.hex[:22]))
    text = st.text(max_size=40) | st.text(alphabet=ALPHA + "0O", min_size=20, max_size=24)
    junk = st.sampled_from(["\n", "\r", "\r\n", " ", "\t", "\x00", "\x0b", "\x0c", "\x1c", "\x85", "\u2028", "\u00a0"]) | \
        st.sampled_from(FOREIGN)
    padded = st.builds(lambda s, j, where: s + j if where == 0 else j + s if where == 1 else j + s + j,
                       valid, junk, st.integers(0, 2))
    return st.one_of(
        valid.map(lambda s: {"s": s, "kind": "valid"}),
        foreign.map(lambda s: {"s": s, "kind": "foreign"}),
        overflow.map(lambda s: {"s": s, "kind": "overflow"}),
        near_limit.map(lambda s: {"s": s, "kind": "near_limit"}),
        wrong_len.map(lambda s: {"s": s, "kind": "wrong_len"}),
        forms.map(lambda s: {"s": s, "kind": "form"}),
        text.map(lambda s: {"s": s, "kind": "text"}),
        padded.map(lambda s: {"s": s, "kind": "padded"}),
    )


def foreign_everywhere():
    base = ref_encode(0x1234567890abcdef1234567890abcdef)
    for pos in range(22):
        for ch in FOREIGN:
            yield {"s": base[:pos] + ch + base[pos + 1:], "kind": "foreign"}
    for n in range(0, 41):
        yield {"s": (base * 2)[:n], "kind": "wrong_len"}
    for ch in list(FOREIGN) + ["\n", "\r", "\r\n", "\x00", "\x0b", "\x0c", "\x1c", "\x85", "\u2028"]:
        for s in (base + ch, ch + base, ch + base + ch, base[:21] + ch):
            yield {"s": s, "kind": "padded"}


# ---------------------------------------------------------------------------
# the same calls made by two threads: the encoding of a value does not depend on what another thread converts at the same
# time. The harness owns the schedule (vlib.sched, opcode granularity inside ak/short_uuid.py).

INTERLEAVED_VALUES = [[0x1234567890abcdef1234567890abcdef, 2 ** 128 - 1], [57 ** 21, 57 ** 21 + 1], [0, 1]]


def _thread_fn(m, n, reps, out):
    def fn():
        u = _uuid.UUID(int=n)
        for _ in range(reps):
            s = m.uuid_to_short_str(u)
            out.append((n, s, m.uuid_from_short_str(s).int, m.uuid_from_str(s).int))
    return fn


def eval_interleaved(case):
    from vlib import sched
    m = _mod()
    a, b = [int(x) for x in case["values"]]
    shim = sched.ShimThreading()
    outs = [[], []]
    s = sched.Scheduler(shim, "ak/short_uuid.py")
    s.run([_thread_fn(m, a, case["reps"][0], outs[0]), _thread_fn(m, b, case["reps"][1], outs[1])], case["schedule"])
    f = []
    for tid, e in s.errors:
        f.append(("thread_raises_" + type(e).__name__, f"thread {tid}: {e}; schedule={case['schedule']!r}"))
    for tid, out in enumerate(outs):
        for n, sh, back, back2 in out:
            if sh != ref_encode(n):
                f.append(("encoding_depends_on_concurrent_calls", f"thread {tid}: uuid_to_short_str({n:#x}) -> {sh!r}, expected "
                          f"{ref_encode(n)!r}; other thread converts {(b if tid == 0 else a):#x}; schedule={case['schedule']!r}"))
                break
            if back != n or back2 != n:
                f.append(("round_trip_depends_on_concurrent_calls", f"thread {tid}: {n:#x} -> {sh!r} -> {back:#x} / {back2:#x}; "
                          f"schedule={case['schedule']!r}"))
                break
    return Outcome(True, ["two_threads", "preempted_after_%s_opcodes" % ("0" if case["schedule"][0][1] == 0 else "n")], f[:3],
                   key=[case["values"], case["schedule"]], evals=sum(case["reps"]) * 3)


def interleaved_cases():
    """every single-preemption schedule: thread x runs k traced opcodes, the other thread runs to its end, x finishes"""
    from vlib import sched
    m = _mod()
    for values in INTERLEAVED_VALUES:
        reps = [3, 2]
        lens = []
        for tid in (0, 1):
            for _ in range(2):      # (the first traced execution of a code object is not reported opcode by opcode)
                sc = sched.Scheduler(sched.ShimThreading(), "ak/short_uuid.py")
                sc.run([_thread_fn(m, values[tid], reps[tid], [])], [])
            lens.append(sc.steps[0])
        for x in (0, 1):
            for k in range(0, lens[x] + 1):
                yield {"values": [str(v) for v in values], "reps": reps,
                       "schedule": [[x, k], [1 - x, sched.INF], [x, sched.INF]]}


def eval_many(case):
    """one process, many DISTINCT values in a row (what a long-running service does): every one round-trips"""
    m = _mod()
    n0, count, step = int(case["start"]), case["count"], int(case["step"])
    f = []
    for i in range(count):
        n = (n0 + i * step) % LIMIT
        try:
            s = m.uuid_to_short_str(_uuid.UUID(int=n))
            back = m.uuid_from_short_str(s).int
            back2 = m.uuid_from_str(s).int if i % 7 == 0 else n
        except Exception as e:   # noqa
            f.append(("round_trip_raises_%s_after_many_distinct_values" % type(e).__name__, f"value #{i} ({n:#x}): {e}"))
            break
        if s != ref_encode(n) or back != n or back2 != n:
            f.append(("round_trip_wrong_after_many_distinct_values", f"value #{i} ({n:#x}): {s!r} -> {back:#x}"))
            break
    return Outcome(True, ["many_distinct_values_in_one_process"], f, key=case, evals=count)


def many_cases():
    yield {"start": str(2 ** 127 + 12345), "count": 70000, "step": str(57 ** 11 + 1)}
    yield {"start": "0", "count": 70000, "step": "1"}


def parts(tier):
    k = 1 if tier == "quick" else 60
    return [
        Part("many_distinct_values", eval_many, enumerate=many_cases, exhaustive=True,
             note="70000 distinct values converted one after the other in one process (two runs)"),
        Part("interleaved_calls", eval_interleaved, enumerate=interleaved_cases, exhaustive=True,
             note="two threads converting different values, every single-preemption schedule at opcode granularity"),
        Part("carry_enum", evaluate, enumerate=carry_family, exhaustive=True,
             note="complete enumeration of the digit-carry / power-of-two boundary family"),
        Part("foreign_enum", evaluate, enumerate=foreign_everywhere, exhaustive=True,
             note="every foreign character of a fixed pool at every position; every length 0..40"),
        Part("ints", evaluate, strategy=st_int, examples=20000 * k),
        Part("strings", evaluate, strategy=st_str, examples=30000 * k),
    ]

TECHNIQUE = "property-based testing (Hypothesis) + exhaustive enumeration of the carry/boundary family and of all single-preemption two-thread schedules, differential against an independent base-57 reference codec and uuid.UUID"
LEVEL_TEXT = ("Exploration: round trip, exact encoding and exact accept/reject (ValueError) behaviour compared with an "
              "independent reference codec on ~50k generated integers/strings per quick run (millions thorough), the "
              "57**k / 2**k boundary family and foreign-character-at-every-position family enumerated completely. "
              "2**128 values cannot be enumerated; the codec is a 22-step digit loop whose failure modes are carries, "
              "padding, digit order and range, which the boundary families target.")
LEVEL_NOTE = "Trusted: the reference codec in the check (25 lines), stdlib uuid.UUID, Hypothesis. Only str inputs."
