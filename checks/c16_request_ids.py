"""C16 - request ids are unique per connection under concurrent use.

The harness owns the schedule (vlib.sched): worker threads issue requests through connections that
share one implementation object; every opcode executed inside ak/conn_http.py is a possible
preemption point and an interleaving is an explicit list of [thread, opcodes-to-run] segments.
"""
from hypothesis import strategies as st

from vlib import fakehttp, sched
from vlib.core import Outcome, Part

ID = "C16"
RULE = ("2-3 threads x 1-3 requests each through the base connection and derived ones (BAuthConn(conn), "
        "HttpConn(conn, adapters), an MCallerHttp clone) sharing one implementation object; some requests carry a "
        "caller-supplied X-Request-ID. Schedules: all single-preemption schedules (run thread a for k opcodes of "
        "ak/conn_http.py, k = 0..len, let thread b run until it finishes or blocks, resume a) for the configurations "
        "2x1, 2x2, 3x2 and 3x3 (parts single_preemption_*, exhaustive), thorough also all double-preemption schedules of the "
        "2x1 configuration, plus Hypothesis-drawn schedules with 2-5 preemptions biased to the id generator. Part "
        "derived_families (one thread): generated trees of up to 7 connections derived through BAuthConn / TokenAuthConn / "
        "ClientAuthConn / HttpConn with prefix, custom-authentication or several adapters / MCallerHttp clones / add_adapter, "
        "3-14 requests spread over them with all five HTTP methods; part long_runs: >10000 ids on one connection. "
        "Non-trivial = an execution in which a call of the id generator was preempted and another thread executed "
        "id-generator opcodes before it finished (or, where the lock prevented that, blocked on it); distinct by the "
        "(thread, function, offset) trace restricted to the id generator."
        " Also: caller-supplied ids under other spellings of the header name; config 2x2bad (a request whose data cannot be serialised) under every single-preemption schedule.")
ASSUMPTIONS = [
    "interleavings inside the C code of a single opcode are atomic under the GIL and are not explored; free-threaded builds out of scope",
    "the module's `threading` attribute is replaced by a cooperative shim; a real lock obtained some other way only slows the run down (stuck-thread timeout), it cannot cause a verdict",
    "sequence numbers are read from the last dash-separated field of the generated id",
]

WATCH = ("_generate_request_id",)
CONFIGS = {
    "2x1": {"kinds": ["base", "bauth"], "reqs": [[None], [None]]},
    "2x2": {"kinds": ["http_prefix", "base"], "reqs": [[None, None], ["own-1", None]]},
    "3x2": {"kinds": ["base", "clone", "bauth"], "reqs": [[None, None], [None, "own-2"], [None, None]]},
    "3x3": {"kinds": ["bauth", "http_prefix", "base"], "reqs": [[None, None, None], ["own-3", None, None], [None, None, "own-4"]]},
    # "!bad": a request that cannot be prepared (its data is not JSON-serialisable): the caller gets the TypeError, nothing
    # is sent; the number it may have been handed is not handed to anybody else
    "2x2bad": {"kinds": ["base", "bauth"], "reqs": [["!bad", None], [None, None]]},
}
BAD = "!bad"


class _Patched:
    """replace the lock factory the module under test sees (its `threading` attribute and, if it imported
    the names directly, `Lock` / `RLock`)"""

    def __init__(self, H, shim):
        self.H, self.shim, self.saved = H, shim, {}

    def __enter__(self):
        for name, val in (("threading", self.shim), ("Lock", self.shim.Lock), ("RLock", self.shim.RLock)):
            if hasattr(self.H, name):
                self.saved[name] = getattr(self.H, name)
                setattr(self.H, name, val)

    def __exit__(self, *a):
        for name, val in self.saved.items():
            setattr(self.H, name, val)
        return False


def build_world(H, MH, kinds):
    base = H.HttpConn("http://h.invalid")
    opener = fakehttp.install(base)
    conns = []
    for k in kinds:
        if k == "base":
            conns.append(base)
        elif k == "bauth":
            conns.append(H.BAuthConn(base, "u", "p"))
        elif k == "http_prefix":
            conns.append(H.HttpConn(base, adapters=[H.RequestAdapterAddPathPrefix("/api")]))
        elif k == "clone":
            conns.append(MH.MCallerHttp(base).clone().http_conn)
        else:
            raise ValueError(k)
    return base, opener, conns


def run_case(case):
    import ak.conn_http as H
    import ak.mcaller_http as MH
    fakehttp.speedup_ssl()
    shim = sched.ShimThreading()
    with _Patched(H, shim):
        base, opener, conns = build_world(H, MH, case["kinds"])

        def mk(tid, conn, reqs):
            def fn():
                for own in reqs:
                    if own == BAD:
                        try:
                            conn.post("/p%d" % tid, data={"k": {1, 2}})
                        except TypeError:
                            pass
                        continue
                    hdrs = {"X-Request-ID": own} if own is not None else None
                    conn.get("/p%d" % tid, headers=hdrs)
            return fn
        fns = [mk(t, c, r) for t, (c, r) in enumerate(zip(conns, case["reqs"]))]
        s = sched.Scheduler(shim, "ak/conn_http.py", watch_funcs=WATCH)
        s.run(fns, case["schedule"])
    return s, opener


def judge(case, s, opener):
    f = []
    if s.errors:
        tid, e = s.errors[0]
        f.append(("request_raises_" + type(e).__name__, f"thread {tid}: {e}"))
    supplied = [o for reqs in case["reqs"] for o in reqs if o is not None and o != BAD]
    nbad = sum(1 for reqs in case["reqs"] for o in reqs if o == BAD)
    total = sum(len(r) for r in case["reqs"]) - nbad
    ids = []
    for rq in opener.requests:
        h = {k.lower(): v for k, v in rq.header_items()}
        ids.append(h.get("x-request-id"))
    if len(ids) != total and not s.errors:
        f.append(("wrong_number_of_requests", f"{len(ids)} sent, {total} issued"))
    gen = [i for i in ids if i not in supplied]
    sup_seen = sorted(i for i in ids if i in supplied)
    if sup_seen != sorted(supplied) and not s.errors:
        f.append(("caller_supplied_id_not_sent_verbatim", f"{ids!r}"))
    if any(not isinstance(i, str) or len(i.split("-")) != 5 for i in gen):
        f.append(("generated_id_missing_or_malformed", repr(ids)))
        return f
    if len(set(gen)) != len(gen):
        f.append(("duplicate_request_id", f"{gen!r} schedule={case['schedule']!r}"))
    nums = sorted(int(i.split("-")[-1]) for i in gen)
    if nums != list(range(len(gen))) and not (nbad and len(set(nums)) == len(nums) and set(nums) <= set(range(len(gen) + nbad))):
        if len(set(nums)) != len(nums):
            f.append(("sequence_number_repeated", f"{nums!r} schedule={case['schedule']!r}"))
        else:
            f.append(("sequence_number_gap", f"{nums!r} (a caller-supplied id must not consume a number) "
                      f"schedule={case['schedule']!r}"))
    if len({i[:4] for i in gen}) > 1:
        f.append(("connection_part_differs_between_derived_connections", repr(gen)))
    for i in gen:
        if i[4:8] != "%04d" % (int(i.split("-")[-1]) % 10000):
            f.append(("short_sequence_copy_inconsistent", i))
            break
    return f


def evaluate(case):
    s, opener = run_case(case)
    f = judge(case, s, opener)
    inter = s.interrupted_watch()
    classes = ["config_%dx%d" % (len(case["reqs"]), max(len(r) for r in case["reqs"]))]
    if inter:
        classes.append("idgen_call_interleaved")
    if s.stuck:
        classes.append("stuck_timeout_used")
    key = s.interleaving_key()
    nt = inter > 0
    return Outcome(nt, classes, f, key=key, sample={"kinds": case["kinds"], "reqs": case["reqs"],
                                                    "schedule": case["schedule"], "idgen_calls_interleaved": inter})


# ---------------------------------------------------------------------------
# families of derived connections (one thread): "including every connection derived from it"
# ---------------------------------------------------------------------------

BUILTIN_AUTH = ("bauth", "token", "client", "clone_bauth")
FAMILY_KINDS = ["bauth", "token", "client", "prefix", "apikey", "multi", "clone_plain", "clone_bauth", "clone_prefix",
                "caller_conn", "add_adapter"]


def build_family(H, MH, derive):
    class ApiKeyAdapter(H.RequestAdapter):
        """authentication that does not use the Authorization header"""
        AUTH_TYPE = "apikey"

        def process_req_args(self, req_args):
            req_args.headers["X-Api-Key"] = "k"

        def mk_descr(self):
            return "with api key"
    base = H.HttpConn("http://h.invalid")
    conns = [base]
    builtin = [False]
    for pidx, kind in derive:
        pi = pidx % len(conns)
        parent = conns[pi]
        if kind in BUILTIN_AUTH and builtin[pi]:
            kind = "prefix"      # two built-in authentications in one chain are rejected by the package (assertion)
        if kind == "bauth":
            c = H.BAuthConn(parent, "u", "p")
        elif kind == "token":
            c = H.TokenAuthConn(parent, "tkn")
        elif kind == "client":
            c = H.ClientAuthConn(parent, "cl", "id", "secret")
        elif kind == "prefix":
            c = H.HttpConn(parent, adapters=[H.RequestAdapterAddPathPrefix("/api")])
        elif kind == "apikey":
            c = H.HttpConn(parent, adapters=ApiKeyAdapter())
        elif kind == "multi":
            c = H.HttpConn(parent, adapters=[H.RequestAdapterAddPathPrefix("/v2"), ApiKeyAdapter()])
        elif kind == "clone_plain":
            c = MH.MCallerHttp(parent).clone().http_conn
        elif kind == "clone_bauth":
            c = MH.MCallerHttp(parent).clone(H.BAuthConn.Adapter("ann", "pw")).http_conn
        elif kind == "clone_prefix":
            c = MH.MCallerHttp(parent).clone([H.RequestAdapterAddPathPrefix("/c")]).http_conn
        elif kind == "caller_conn":
            c = MH.MCallerHttp(parent).http_conn
        elif kind == "add_adapter":
            c = H.HttpConn(parent)
            c.add_adapter(H.RequestAdapterAddPathPrefix("/late"))
        else:
            raise ValueError(kind)
        conns.append(c)
        builtin.append(builtin[pi] or kind in BUILTIN_AUTH)
    return conns


def eval_family(case):
    import urllib.request
    import ak.conn_http as H
    import ak.mcaller_http as MH
    fakehttp.speedup_ssl()
    sent = []
    f = []

    fail_kinds = {"url": lambda: urllib.error.URLError("connection refused"),
                  "http": lambda: urllib.error.HTTPError("http://h.invalid/p", 503, "unavailable", {}, None),
                  "os": lambda: ConnectionResetError("reset"), "timeout": lambda: TimeoutError("timed out")}
    failing = {}

    def fake_open(_self, request, *a, **kw):
        sent.append(request)
        kind = failing.get(len(sent) - 1)
        if kind:
            raise fail_kinds[kind]()       # transport failure after the request (and its id) went out
        return fakehttp.FakeResponse(request.get_method(), 200, b"")
    saved = urllib.request.OpenerDirector.open
    urllib.request.OpenerDirector.open = fake_open
    try:
        try:
            conns = build_family(H, MH, case["derive"])
        except Exception as e:   # noqa
            return Outcome(True, [], [("derivation_raises_" + type(e).__name__, f"{case['derive']!r}: {e}")])
        reqs = list(case["reqs"]) * case.get("repeat", 1)
        methods = ["get", "post", "put", "delete", "patch"]
        shared_hdrs = {"Accept": "text/plain"}
        try:
            for n, rq_ in enumerate(reqs):
                ci, own = rq_[0], rq_[1]
                if len(rq_) > 2 and rq_[2]:
                    failing[n] = rq_[2]
                c = conns[ci % len(conns)]
                if own is not None:
                    # (header names are case-insensitive: the caller may spell the name its own way)
                    hdrs = {case.get("id_header") or "X-Request-ID": own}
                elif case.get("shared_headers"):
                    hdrs = shared_hdrs          # the caller keeps one headers dict and passes it to every request
                else:
                    hdrs = None
                try:
                    getattr(c, methods[(n + ci) % 5] if case.get("methods") else "get")("/p", headers=hdrs)
                except Exception:   # noqa
                    if n not in failing:
                        raise
        except Exception as e:   # noqa
            f.append(("request_raises_" + type(e).__name__, f"request {n} through connection {ci % len(conns)} of "
                      f"{case['derive']!r}: {e}"))
    finally:
        urllib.request.OpenerDirector.open = saved
    ids = []
    for rq in sent:
        h = {k.lower(): v for k, v in rq.header_items()}
        ids.append(h.get("x-request-id"))
    gen = [i for i, r_ in zip(ids, reqs) if r_[1] is None]
    sup = [(i, r_[1]) for i, r_ in zip(ids, reqs) if r_[1] is not None]
    ctx = f"derive={case['derive']!r} reqs={case['reqs'][:12]!r} x{case.get('repeat', 1)}"
    if not f:
        if len(ids) != len(reqs):
            f.append(("wrong_number_of_requests", f"{len(ids)} sent, {len(reqs)} issued; {ctx}"))
        elif any(i != own for i, own in sup):
            f.append(("caller_supplied_id_not_sent_verbatim", f"{[p for p in sup if p[0] != p[1]][:3]!r}; {ctx}"))
        elif any(not isinstance(i, str) or len(i.split("-")) != 5 for i in gen):
            f.append(("generated_id_missing_or_malformed", f"{[i for i in gen if not isinstance(i, str) or len(i.split('-')) != 5][:3]!r}; {ctx}"))
        else:
            nums = [int(i.split("-")[-1]) for i in gen]
            if len(set(gen)) != len(gen):
                seen = set()
                dup = next(i for i in gen if i in seen or seen.add(i))
                f.append(("duplicate_request_id", f"{dup!r} sent twice among {len(gen)} requests; {ctx}"))
            if nums != list(range(len(gen))):
                bad = next(k for k, v in enumerate(nums) if v != k)
                f.append(("sequence_number_repeated" if len(set(nums)) != len(nums) else "sequence_number_gap",
                          f"request {bad} carries number {nums[bad]} (numbers so far {nums[max(0, bad - 3):bad + 1]!r}); {ctx}"))
            if len({i[:4] for i in gen}) > 1:
                f.append(("connection_part_differs_between_derived_connections", f"{sorted({i[:4] for i in gen})!r}; {ctx}"))
    kinds = sorted({k for _, k in case["derive"]})
    used = {r_[0] % (len(case["derive"]) + 1) for r_ in case["reqs"]}
    if failing:
        classes_extra = ["request_fails_in_transport"]
    else:
        classes_extra = []
    if any(r_[1] == "" for r_ in case["reqs"]):
        classes_extra.append("empty_string_supplied_as_id")
    classes = ["family_of_%d" % min(len(case["derive"]) + 1, 6)] + ["derived_" + k for k in kinds] + classes_extra
    if len(reqs) > 10000:
        classes.append("more_than_10000_requests")
    depth = 0
    d = {0: 0}
    for n, (pidx, kind) in enumerate(case["derive"]):
        d[n + 1] = d[pidx % (n + 1)] + 1
        depth = max(depth, d[n + 1])
    if depth >= 2:
        classes.append("derivation_depth_ge_2")
    if case.get("shared_headers"):
        classes.append("caller_reuses_one_headers_dict")
    nt = len(used) >= 2 and len(gen) >= 3
    return Outcome(nt, classes, f, key=[case["derive"], case["reqs"], case.get("repeat", 1)],
                   sample={"derive": case["derive"], "reqs": case["reqs"][:10], "repeat": case.get("repeat", 1)})


def st_family():
    idx = st.integers(0, 7)
    return st.fixed_dictionaries({
        "derive": st.lists(st.tuples(idx, st.sampled_from(FAMILY_KINDS)).map(list), min_size=1, max_size=6),
        "reqs": st.lists(st.tuples(idx, st.sampled_from([None, None, None, None, "own-1", "0000-own", ""]),
                                   st.sampled_from([None, None, None, None, None, "url", "http", "os", "timeout"])).map(list),
                         min_size=3, max_size=14),
        "methods": st.booleans(),
        "shared_headers": st.booleans(),
        "id_header": st.sampled_from(["X-Request-ID", "X-Request-ID", "X-Request-ID", "x-request-id", "X-Request-Id", "X-REQUEST-ID"]),
    })


def long_runs():
    # the sequence number outgrows the 4-digit copy: ids must stay distinct and gapless
    yield {"derive": [[0, "bauth"], [0, "prefix"]], "reqs": [[0, None], [1, None], [2, None]], "repeat": 3400}
    yield {"derive": [[0, "clone_plain"]], "reqs": [[1, None], [0, None], [1, "own-1"]], "repeat": 7000}


def calibrate(cfg):
    """steps each thread needs when the threads run one after the other; offsets inside the id generator"""
    case = {"kinds": cfg["kinds"], "reqs": cfg["reqs"], "schedule": []}
    import ak.conn_http as H
    import ak.mcaller_http as MH
    fakehttp.speedup_ssl()
    shim = sched.ShimThreading()
    with _Patched(H, shim):
        base, opener, conns = build_world(H, MH, case["kinds"])
        lens = []
        for tid, (c, reqs) in enumerate(zip(conns, case["reqs"])):
            def fn(c=c, reqs=reqs):
                for own in reqs:
                    if own == BAD:
                        try:
                            c.post("/p", data={"k": {1, 2}})
                        except TypeError:
                            pass
                        continue
                    c.get("/p", headers={"X-Request-ID": own} if own is not None else None)
            # (measured on the second run: the first execution of a code object under the tracer is not reported opcode by
            # opcode - CPython instruments it for opcode events only once f_trace_opcodes was set on one of its frames)
            for _ in range(2):
                s = sched.Scheduler(shim, "ak/conn_http.py", watch_funcs=WATCH)
                s.run([fn], [])
            lens.append(s.steps[0])
        return lens


def single_preemption(name):
    def gen():
        cfg = CONFIGS[name]
        lens = calibrate(cfg)
        n = len(lens)
        for a in range(n):
            for k in range(0, lens[a] + 1):
                for b in range(n):
                    if b != a:
                        yield {"kinds": cfg["kinds"], "reqs": cfg["reqs"],
                               "schedule": [[a, k], [b, sched.INF], [a, sched.INF]]}
    return gen


def double_preemption(name):
    def gen():
        cfg = CONFIGS[name]
        lens = calibrate(cfg)
        assert len(lens) == 2
        for a in (0, 1):
            b = 1 - a
            for k in range(0, lens[a] + 1):
                for j in range(0, lens[b] + 1):
                    yield {"kinds": cfg["kinds"], "reqs": cfg["reqs"],
                           "schedule": [[a, k], [b, j], [a, sched.INF], [b, sched.INF]]}
    return gen


def st_schedules():
    lens_cache = {name: calibrate(cfg) for name, cfg in CONFIGS.items()}   # outside the strategy: uses random

    @st.composite
    def strat(draw):
        name = draw(st.sampled_from(sorted(CONFIGS)))
        cfg = CONFIGS[name]
        lens = lens_cache[name]
        n = len(lens)
        # also vary which connection kind each thread uses and which requests carry own ids
        kinds = [draw(st.sampled_from(["base", "bauth", "http_prefix", "clone"])) for _ in range(n)]
        reqs = [[draw(st.sampled_from([None, None, None, "own-%d" % (t * 10 + i)])) for i in range(len(cfg["reqs"][t]) +
                                                                                                   draw(st.integers(0, 1)))]
                for t in range(n)]
        nseg = draw(st.integers(2, 5))
        per_req = max(lens) // max(len(r) for r in cfg["reqs"])
        sched_ = []
        for _ in range(nseg):
            t = draw(st.integers(0, n - 1))
            k = draw(st.integers(0, per_req) | st.integers(0, 3 * per_req) | st.integers(per_req // 3, per_req // 2))
            sched_.append([t, k])
        return {"kinds": kinds, "reqs": reqs, "schedule": sched_}
    return strat()


def parts(tier):
    ps = [
        Part("single_preemption_2x1", evaluate, enumerate=single_preemption("2x1"), exhaustive=True,
             note="every single-preemption schedule of 2 threads x 1 request"),
        Part("single_preemption_2x2", evaluate, enumerate=single_preemption("2x2"), exhaustive=True),
        Part("single_preemption_3x2", evaluate, enumerate=single_preemption("3x2"), exhaustive=True),
        Part("single_preemption_3x3", evaluate, enumerate=single_preemption("3x3"), exhaustive=True),
        Part("single_preemption_2x2bad", evaluate, enumerate=single_preemption("2x2bad"), exhaustive=True,
             note="one thread's first request cannot be prepared (unserialisable data)"),
        Part("random_multi_preemption", evaluate, strategy=st_schedules, examples=6000 if tier == "quick" else 200000),
    ]
    ps.append(Part("derived_families", eval_family, strategy=st_family, examples=4000 if tier == "quick" else 120000,
                   note="one thread; trees of derived connections (auth, prefix, custom auth adapter, cloned callers, add_adapter)"))
    ps.append(Part("long_runs", eval_family, enumerate=long_runs, exhaustive=True,
                   note="more than 10000 generated ids on one underlying connection"))
    if tier == "thorough":
        ps.append(Part("double_preemption_2x1", evaluate, enumerate=double_preemption("2x1"), exhaustive=True,
                       note="every double-preemption schedule of 2 threads x 1 request"))
    return ps


TECHNIQUE = "systematic schedule exploration with a harness-owned bytecode-level scheduler (sys.settrace opcode events + cooperative lock shim): exhaustive single-preemption enumeration, Hypothesis-drawn multi-preemption schedules; invariant over the recorded request ids"
LEVEL_TEXT = ("Exploration with exhaustive sub-spaces: every single-preemption schedule (preempt any thread before any opcode of "
              "ak/conn_http.py, run another thread, resume) of the 2x1, 2x2, 3x2 and 3x3 configurations is executed on the real code "
              "(thorough: every double-preemption schedule of 2x1), plus generated schedules with up to 5 preemptions. The lost-update "
              "race that breaks the property needs exactly one preemption inside the id generator, so the single-preemption space "
              "decides it for these configurations; more threads/requests and deeper preemption nests are sampled only.")
LEVEL_NOTE = "Trusted: vlib/sched.py (scheduler and lock shim), CPython's per-opcode tracing, GIL atomicity of single opcodes."
