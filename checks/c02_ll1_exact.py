"""C02 - conflict-free (LL(1)) grammars are parsed exactly.

Oracles: membership by an independent chart recogniser on the user grammar; for grammars that are LL(1) as
written (own FIRST/FOLLOW/predict computation) also the unique derivation tree built by an own predictive parser.
"""
import itertools

from hypothesis import strategies as st

from vlib import grammar as gk
from vlib.core import Outcome, Part
from vlib.parserguard import parse_guarded
from checks.c01_parse_tree_validity import build_parser, concrete_tokens, st_inputs

ID = "C02"
RULE = ("domain A: grammars built to be LL(1) as written (alternatives start with distinct terminals or non-terminals with "
        "disjoint FIRST sets, at most one nullable alternative; kept only if own predict sets are pairwise disjoint and "
        "there is no left recursion); domain B: general grammars of the C01 generator for which the parser itself reports "
        "is_ambiguous() == False. Inputs: EVERY token string up to length 5 over the grammar's (<=3) terminals (up to 364 "
        "strings, exhaustive per grammar; length 4 for 4 terminals) plus sampled sentences of <=10 tokens and their one-token "
        "mutations; both smart_factorization settings; productions declared top-down / bottom-up / shuffled; is_ambiguous() is "
        "re-read after all texts were parsed. Non-trivial = grammar has a nullable non-terminal followed by "
        "something and the tested set contains both members and non-members; distinct by (grammar, names)."
        " Also: FOLLOW-dependency cycles through 2-3 symbols (pattern st_follow_cycle); the parser's description printed before parsing in a quarter of the cases."
        " Part any_token_except: three conflict-free shapes built on AnyTokenExcept (a ProdSequence of it in front of ';', two of it in "
        "front of ';', nested brackets around it), 0-4 excluded terminals out of all 17, skip_tokens left at the default or given explicitly "
        "(SPACE+COMMENT / SPACE / none / COMMENT / with NUM or WORD and + skipped as well), so that blank and comment tokens are ordinary "
        "terminals in some configurations; membership by a closed-form rule on the tokens that reach the parser; non-trivial = members and non-members tested. Part templates_nullable_tail (exhaustive): ProdSequence (closed by brackets / open to the end of input / two sequences around ';'), ListProds (brackets with and without final delimiter, bracket-less) and MapProds whose element ends in an optional token, optional alternative first or last, declared top-down / bottom-up; the language is a regular expression over token codes and every token string up to length 5-6 is parsed (a quarter of the longest non-members).")
ASSUMPTIONS = [
    "domain F (part of A): hand-shaped LL(1) patterns where exact FOLLOW sets matter (nullable symbol followed by a nullable symbol that has another follower elsewhere), with generated terminals, orders and wrappers",
    "membership oracle = fixpoint chart recogniser over the user grammar (vlib/grammar.py)",
    "a push budget exhausted on a conflict-free grammar is reported inconclusive",
]


def tree_equal(t, ref, tokens):
    """parser tree vs own LL(1) tree"""
    name, kids = ref
    if t.name != name:
        return False
    if isinstance(kids, int):
        return t.value == tokens[kids][1]
    real = t.value if t.value is not None else []
    if not isinstance(real, list) or len(real) != len(kids):
        return False
    return all(tree_equal(a, b, tokens) for a, b in zip(real, kids))


def all_strings(terms, maxlen):
    for n in range(maxlen + 1):
        for tup in itertools.product(terms, repeat=n):
            yield list(tup)


def evaluate(case):
    import ak.llparser as L
    tokcfg, names = gk.tok_config(case["syn"], case["kw"])
    conc = gk.rename(case["g"], case["pool"], case["perm"], names)
    conc["all_names"] = names
    G = gk.Grammar(conc["prods"], conc["start"], set(conc["terms"]))
    cyc = G.left_recursion_cycle()
    ll1 = (not cyc) and G.is_ll1()
    classes = set(["ll1_as_written" if ll1 else "not_ll1_as_written"])
    f = []
    # inputs: exhaustive short strings + generated ones
    kinds = list(case["g"]["terms"])
    maxlen = case.get("exhaustive", 0)
    inputs = []
    if maxlen:
        for toks in all_strings(kinds, maxlen):
            pairs = [[k, 0] for k in toks]
            inputs.append((pairs, [""] + [" "] * max(0, len(toks) - 1) + ([""] if toks else [])))
    for inp in case["inputs"]:
        inputs.append((inp["toks"], inp["seps"]))
    decisions = {}
    evals = 0
    members = nonmembers = 0
    memo = {}
    for smart in (True, False):
        try:
            parser = build_parser(L, conc, tokcfg, smart, True, case.get("decl"))
        except L.GrammarIsRecursive:
            classes.add("constructor_rejects_recursive")
            if not cyc:
                f.append(("grammar_without_cycle_rejected", f"{conc['prods']!r}"))
            continue
        except Exception as e:   # noqa
            f.append(("constructor_raises_" + type(e).__name__, f"{conc['prods']!r}: {str(e)[-200:]}"))
            continue
        amb = parser.is_ambiguous()
        if case.get("describe"):
            # the description of the prepared grammar is printed first (a read-only look at the parser)
            import contextlib
            import io
            with contextlib.redirect_stdout(io.StringIO()):
                parser.print_detailed_descr()
            classes.add("description_printed_before_parsing")
        if ll1 and amb:
            f.append(("ll1_grammar_reported_ambiguous", f"smart_factorization={smart} grammar={conc['prods']!r} "
                      f"start={conc['start']!r}"))
        if amb:
            classes.add("parser_reports_conflicts")
            continue
        classes.add("conflict_free_smart" if smart else "conflict_free_plain")
        for pairs, seps in inputs:
            tokens = concrete_tokens(conc, pairs)
            tnames = tuple(n for n, _ in tokens)
            if tnames not in memo:
                memo[tnames] = G.recognize(list(tnames))
            member = memo[tnames]
            text, _ = gk.render(tokens, seps)
            kind, res, stt = parse_guarded(L, parser, text, len(tokens), do_cleanup=False)
            evals += 1
            ctx = f"smart_factorization={smart} grammar={conc['prods']!r} start={conc['start']!r} text={text!r}"
            if kind == "tree":
                decisions[(smart, tnames)] = True
                if not member:
                    f.append(("non_sentence_accepted", ctx))
                elif ll1:
                    ref = G.ll1_parse(list(tnames))
                    if ref is None or not tree_equal(res, ref, tokens):
                        f.append(("tree_is_not_the_unique_derivation", ctx + f" tree={res!r}"))
            elif kind == "parsing_error":
                decisions[(smart, tnames)] = False
                if member:
                    f.append(("sentence_rejected", ctx))
            elif kind == "inconclusive":
                classes.add("inconclusive_push_budget")
            elif kind == "diverged":
                f.append(("parse_diverges", ctx + f": {res}"))
            else:
                f.append(("non_sentence_raises_%s" % (type(res).__name__ if kind == "exception" else "LexicalError"),
                          ctx + f": {res}"))
            if member:
                members += 1
            else:
                nonmembers += 1
            if len(f) > 3:
                break
        try:
            if parser.is_ambiguous() != amb:
                f.append(("is_ambiguous_changes_after_parsing", f"smart_factorization={smart} grammar={conc['prods']!r}: "
                          f"{amb} before parsing, {parser.is_ambiguous()} after {len(inputs)} texts"))
        except Exception as e:   # noqa
            f.append(("is_ambiguous_raises_" + type(e).__name__, str(e)))
        if len(f) > 3:
            break
    for (smart, tn), d in decisions.items():
        if smart and (False, tn) in decisions and decisions[(False, tn)] != d and not f:
            f.append(("settings_disagree_on_conflict_free_grammar", f"grammar={conc['prods']!r} tokens={tn!r}"))
            break
    nl = G.nullable()
    follow_matters = any(alt[i] in nl and i + 1 < len(alt) for alts in conc["prods"].values() for alt in alts
                         for i in range(len(alt)))
    if follow_matters:
        classes.add("nullable_followed_by_something")
    if members:
        classes.add("has_members")
    if nonmembers:
        classes.add("has_non_members")
    nt = follow_matters and members > 0 and nonmembers > 0 and bool(decisions)
    return Outcome(nt, sorted(classes), f[:4], key=[conc["prods"], conc["start"]], evals=evals,
                   sample={"grammar": conc["prods"], "start": conc["start"], "ll1_as_written": ll1,
                           "strings_tested": len(inputs), "members": members, "non_members": nonmembers})


@st.composite
def st_ll1_grammar(draw):
    """a few constructive attempts; prefer one that is LL(1) as written and in which FOLLOW matters"""
    best = None
    for _ in range(6):
        g = draw(st_ll1_attempt())
        G = gk.Grammar(g["prods"], g["start"], set(g["terms"]))
        if G.left_recursion_cycle() or not G.is_ll1():
            best = best or g
            continue
        nl = G.nullable()
        if any(alt[i] in nl and i + 1 < len(alt) for alts in g["prods"].values() for alt in alts for i in range(len(alt))):
            return g
        best = g
    return best


@st.composite
def st_ll1_attempt(draw):
    nnt = draw(st.integers(1, 4))
    nts = ["N%d" % i for i in range(nnt)]
    nterm = draw(st.integers(2, 3))
    terms = draw(st.permutations([k for k in gk.TERMINAL_KINDS if not k.startswith("KW_")]))[:nterm]
    prods = {}
    first = {}
    nullable = {}
    for i in reversed(range(nnt)):
        a = nts[i]
        later = nts[i + 1:]
        alts = []
        used = set()
        n_alts = draw(st.integers(1, 3))
        for _ in range(n_alts):
            cands = [t for t in terms if t not in used] + [b for b in later if not (first[b] & used) and first[b]
                                                           and not nullable[b]]
            if not cands:
                break
            lead = draw(st.sampled_from(cands))
            used |= {lead} if lead in terms else first[lead]
            # a nullable later symbol may lead too, if a terminal that cannot start it (and is still free) follows:
            # FIRST of the alternative then reaches *behind* the nullable prefix
            nl_cands = [(b, t) for b in later if nullable[b] and not (first[b] & used)
                        for t in terms if t not in first[b] and t not in used]
            lead_seq = [lead]
            if nl_cands and draw(st.integers(0, 2)) == 0:
                used -= ({lead} if lead in terms else first[lead])
                b, t = draw(st.sampled_from(nl_cands))
                lead_seq = [b, t]
                used |= first[b] | {t}
            rest = []
            for _ in range(draw(st.integers(0, 3))):
                x = draw(st.sampled_from(list(terms) * 2 + later * 3 + [a]))
                rest.append(x)
                if x in later and nullable[x]:
                    # FOLLOW matters here: continue with a terminal that cannot start x (keeps the grammar LL(1))
                    ok = [t for t in terms if t not in first[x]]
                    if ok:
                        rest.append(draw(st.sampled_from(ok)))
            alts.append(lead_seq + rest)
        if draw(st.integers(0, 1)) == 0:
            # the (single) nullable alternative: empty, or a unit production to a nullable later symbol
            units = [b for b in later if nullable[b] and not (first[b] & used)]
            if units and draw(st.booleans()):
                b = draw(st.sampled_from(units))
                used |= first[b]
                alts.insert(draw(st.integers(0, len(alts))), [b])
            else:
                alts.insert(draw(st.integers(0, len(alts))), [])
        d = []
        for alt in alts:
            if alt not in d:
                d.append(alt)
        prods[a] = d
        first[a] = set(used)
        nullable[a] = any(all(x in later and nullable[x] for x in alt) for alt in d)
    prods = {a: prods[a] for a in nts}
    return {"prods": prods, "start": "N0", "terms": list(terms)}


@st.composite
def st_follow_pattern(draw):
    """LL(1) grammars in which a nullable symbol is directly followed by another nullable symbol that also occurs
    elsewhere with a different follower: exact FOLLOW sets are needed to see that there is no conflict"""
    ts = draw(st.permutations([k for k in gk.TERMINAL_KINDS if not k.startswith("KW_")]))[:4]
    t, x, y, z = ts
    a_alts = [[t] + draw(st.lists(st.sampled_from([x, y, "N2"]), max_size=2)), []]
    b_alts = [[z] + draw(st.lists(st.sampled_from([z, "N1"]), max_size=1)), []]
    if draw(st.booleans()):
        a_alts.reverse()
    if draw(st.booleans()):
        b_alts.reverse()
    s_alts = [["N1", "N2", x], [y, "N2", t] + draw(st.lists(st.sampled_from([x, y]), max_size=1))]
    if draw(st.booleans()):
        s_alts.reverse()
    prods = {"N0": s_alts, "N1": a_alts, "N2": b_alts}
    if draw(st.booleans()):
        prods = {"N0": [["N3", x], [y]], "N3": s_alts, "N1": a_alts, "N2": b_alts}
        prods = {"N0": prods["N0"], "N1": prods["N1"], "N2": prods["N2"], "N3": prods["N3"]}
    return {"prods": prods, "start": "N0", "terms": [t, x, y, z]}


@st.composite
def st_unit_nullable_pattern(draw):
    """LL(1) grammars with a unit production to a nullable symbol (A -> B, B -> b | empty) and another symbol whose
    alternatives start with B resp. with a token that may follow A: FIRST(B) must not be polluted by FOLLOW(A)"""
    ts = draw(st.permutations([k for k in gk.TERMINAL_KINDS if not k.startswith("KW_")]))[:4]
    b, t, x, y = ts
    b_alts = [[b], []] if draw(st.booleans()) else [[], [b]]
    c_alts = [["N2", x], [t, y]] if draw(st.booleans()) else [[t, y], ["N2", x]]
    a_alts = [["N2"]]
    prods = {"N0": [["N1", t, "N3"]], "N1": a_alts, "N2": b_alts, "N3": c_alts}
    if draw(st.booleans()):
        prods["N0"] = [["N1", t, "N3"], [y]]
    return {"prods": prods, "start": "N0", "terms": list(ts)}


@st.composite
def st_nullable_lead_pattern(draw):
    """LL(1) grammars in which a production starts with nullable symbols followed by a terminal (N1 -> N2 x, N2 -> b |
    empty) and is itself used in leading position or right after another nullable symbol: FIRST(N1) must contain the
    terminal behind the nullable prefix, and so must the FIRST sets of everything that starts with N1"""
    ts = draw(st.permutations([k for k in gk.TERMINAL_KINDS if not k.startswith("KW_")]))[:5]
    b, x, y, z, c = ts
    n2 = draw(st.sampled_from([[[b], []], [[], [b]], [[b, "N2"], []]]))
    n1 = [["N2", x] + draw(st.lists(st.sampled_from([y, b, "N2"]), max_size=1))]
    if draw(st.booleans()):
        n1.insert(draw(st.integers(0, 1)), [z])
    variant = draw(st.integers(0, 2))
    prods = {}
    if variant == 0:
        prods["N0"] = [["N1", y]]
    elif variant == 1:
        prods["N0"] = [["N3", "N1", y]]
        prods["N3"] = draw(st.sampled_from([[[c], []], [[], [c]]]))
    else:
        prods["N0"] = [["N4", y]]
        prods["N4"] = [["N1"] + draw(st.lists(st.sampled_from([c]), max_size=1))]     # a further level above N1
    if draw(st.booleans()):
        prods["N0"] = prods["N0"] + [[y, c]]
    prods["N1"] = n1
    prods["N2"] = n2
    order = draw(st.permutations(sorted(prods)))
    prods = {k: prods[k] for k in order}
    return {"prods": prods, "start": "N0", "terms": list(ts)}


@st.composite
def st_many_alternatives(draw):
    """a symbol with 6-7 adjacent alternatives that share a one-terminal prefix (k a | k b | ... - a statement with many
    forms): conflict-free once factorised, whatever the parser does with such a large group"""
    ts = draw(st.permutations([k for k in gk.TERMINAL_KINDS if not k.startswith("KW_")]))
    k, rest = ts[0], list(ts[1:])
    n = draw(st.integers(6, min(7, len(rest))))
    alts = []
    for t in rest[:n]:
        alts.append([k, t] + ([draw(st.sampled_from(rest))] if draw(st.booleans()) else []))
    if draw(st.booleans()):
        alts.append([rest[0]])          # one alternative outside the group
    prods = {"N1": alts}
    prods["N0"] = [["N1", k]] if draw(st.booleans()) else [["N1"]]
    order = draw(st.permutations(sorted(prods)))
    return {"prods": {a: prods[a] for a in order}, "start": "N0", "terms": list(ts)}


@st.composite
def st_follow_cycle(draw):
    """LL(1) grammars whose FOLLOW dependencies form a cycle through two or three different symbols (mutual tail
    recursion: N1 -> a N2 | empty ; N2 -> b N1 | empty) entered from outside at one or two members: every member of the
    cycle needs the complete FOLLOW set, whatever the order (names, declaration) in which the symbols are visited"""
    ts = draw(st.permutations([k for k in gk.TERMINAL_KINDS if not k.startswith("KW_")]))[:7]
    p, q, x, y = ts[:4]
    n = draw(st.integers(2, 3))
    cyc = ["N%d" % (i + 1) for i in range(n)]
    prods = {}
    for i, a in enumerate(cyc):
        alts = [[ts[4 + i], cyc[(i + 1) % n]], []]
        if draw(st.booleans()):
            alts.reverse()
        prods[a] = alts
    entry = draw(st.sampled_from(cyc))
    s_alts = [[p, entry] + ([x] if draw(st.booleans()) else [])]
    if draw(st.booleans()):
        other = draw(st.sampled_from(cyc))
        s_alts.append([q, other, y])
    if draw(st.booleans()):
        s_alts.reverse()
    prods["N0"] = s_alts
    order = draw(st.permutations(sorted(prods)))
    prods = {k: prods[k] for k in order}
    return {"prods": prods, "start": "N0", "terms": list(ts[:4 + n])}


@st.composite
def st_follow_chain(draw):
    """LL(1) grammars whose FOLLOW sets need several propagation steps: N0 -> N1 x ; N1 -> t1 N2 ; ... ; Nk -> tk | empty"""
    ts = draw(st.permutations([k for k in gk.TERMINAL_KINDS if not k.startswith("KW_")]))[:5]
    depth = draw(st.integers(2, 4))
    nts = ["N%d" % i for i in range(depth + 1)]
    x = ts[0]
    prods = {"N0": [["N1", x]] + ([[ts[4]]] if draw(st.booleans()) else [])}
    for i in range(1, depth):
        alts = [[ts[1 + i % 3], nts[i + 1]]]
        if draw(st.booleans()):
            alts.append([ts[4], ts[4]])
        prods[nts[i]] = alts
    last = [[ts[1]], []] if draw(st.booleans()) else [[], [ts[1]]]
    prods[nts[depth]] = last
    return {"prods": prods, "start": "N0", "terms": list(ts)}


@st.composite
def st_case(draw):
    dom = draw(st.sampled_from(["A", "A", "A", "B", "B", "F", "G", "H"]))
    if dom == "A":
        g = draw(st_ll1_grammar())
    elif dom == "F":
        g = draw(st.sampled_from([st_follow_pattern, st_unit_nullable_pattern, st_nullable_lead_pattern, st_follow_cycle]))
        g = draw(g())
    elif dom == "G":
        g = draw(st_follow_chain())
    elif dom == "H":
        g = draw(st_many_alternatives())
    else:
        g = draw(gk.st_grammar(max_nt=4, max_alts=draw(st.sampled_from([3, 3, 5, 6])), max_len=3,
                               n_terms=draw(st.integers(2, 3))))
        kws = [t for t in g["terms"] if t.startswith("KW_")]
        if kws:
            pool = [k for k in gk.TERMINAL_KINDS if not k.startswith("KW_") and k not in g["terms"]]
            mp = {k: pool[i] for i, k in enumerate(kws)}
            g = {"prods": {a: [[mp.get(s, s) for s in alt] for alt in alts] for a, alts in g["prods"].items()},
                 "start": g["start"], "terms": [mp.get(t, t) for t in g["terms"]]}
    G = gk.Grammar(g["prods"], g["start"], set(g["terms"]))
    inputs = draw(st_inputs(G, g, draw(st.integers(3, 8)), max_tokens=10, multiline=False))
    return {"g": g, "dom": dom, "pool": draw(st.integers(0, 4)), "perm": draw(st.permutations(list(range(6)))),
            "syn": draw(st.booleans()), "kw": False, "inputs": inputs, "describe": draw(st.integers(0, 3)) == 0,
            "exhaustive": ((5 if draw(st.integers(0, 3)) == 0 else 4) if len(g["terms"]) <= 3 else
                           (4 if draw(st.integers(0, 3)) == 0 else 3) if len(g["terms"]) == 4 else 3),
            "decl": draw(st.sampled_from([None, "bottomup", "bottomup", "shuffle"]).flatmap(
                lambda d: st.lists(st.integers(0, 9), min_size=6, max_size=6) if d == "shuffle" else st.just(d)))}


# ---------------------------------------------------------------------------
# AnyTokenExcept under default and explicit skip_tokens
# ---------------------------------------------------------------------------

ATE_TERMS = ["WORD", "NUM", "+", ",", ";", "(", ")", "[", "]", "{", "}", ":", "IF", "END_KW", "DO", "COMMENT", "SPACE"]
ATE_LEX = {"WORD": "ab", "NUM": "7", "IF": "if", "END_KW": "end", "DO": "do", "COMMENT": "# c", "SPACE": "  "}
ATE_SKIPS = [None, ["SPACE", "COMMENT"], ["SPACE"], [], ["SPACE", "COMMENT", "NUM"], ["SPACE", "WORD", "+"], ["COMMENT"]]


def ate_text(toks, skip):
    """text for the token names `toks` and the token string (skipped ones removed) that reaches the parser"""
    pieces = []
    arriving = []
    explicit_space = "SPACE" not in skip
    for t in toks:
        lx = ATE_LEX.get(t, t)
        if pieces and pieces[-1].startswith("#"):
            pieces.append("\n")                 # a comment runs to the end of its line; the line break is no token
        elif pieces and not explicit_space:
            pieces.append(" ")
        elif pieces and explicit_space and t != "SPACE" and pieces[-1] != ATE_LEX["SPACE"] \
                and gk.need_space(pieces[-1], lx):
            pieces.append(ATE_LEX["SPACE"])
            arriving.append("SPACE")
        if t == "SPACE" and pieces and pieces[-1] == ATE_LEX["SPACE"]:
            continue                              # two blanks in a row are one token
        if t == "SPACE" and not explicit_space:
            continue
        pieces.append(lx)
        if t not in skip:
            arriving.append(t)
    while pieces and pieces[-1] == ATE_LEX["SPACE"]:
        # the lines of a text given as str are right-stripped by the tokenizer (documented): blanks at the very end never arrive
        pieces.pop()
        if "SPACE" not in skip:
            assert arriving[-1] == "SPACE"
            arriving.pop()
    return "".join(pieces), arriving


def evaluate_ate(case):
    import ak.llparser as L
    tokcfg, _names = gk.tok_config(True, True)
    skip_arg = ATE_SKIPS[case["skip"] % len(ATE_SKIPS)]
    skip = {"SPACE", "COMMENT"} if skip_arg is None else set(skip_arg)
    excl = sorted(set(case["excl"]) | {";"})
    shape = case["shape"]
    if shape == "nest":
        excl = sorted(set(excl) | {"(", ")"})

    def make_prods():
        # template objects belong to one parser: built anew for each
        if shape == "seq":
            prods = {"E": [("S", ";")], "S": L.ProdSequence(L.AnyTokenExcept(*excl))}
        elif shape == "pair":
            prods = {"E": [("X", "X", ";")], "X": [L.AnyTokenExcept(*excl)]}
        else:
            # X is a bracketed X or any token except the brackets
            prods = {"E": [("X", ";")], "X": [("(", "X", ")"), L.AnyTokenExcept(*excl)]}
        if case.get("bottomup"):
            prods = {k: prods[k] for k in reversed(list(prods))}
        return prods

    def member(arr):
        if not arr or arr[-1] != ";":
            return False
        body = arr[:-1]
        if shape == "seq":
            return all(t not in excl for t in body)
        if shape == "pair":
            return len(body) == 2 and all(t not in excl for t in body)
        d = 0
        while body and body[0] == "(" and body[-1] == ")":
            body = body[1:-1]
            d += 1
        return len(body) == 1 and body[0] not in excl
    f = []
    classes = {"shape_" + shape, "skip_tokens_" + ("default" if skip_arg is None else "+".join(skip_arg) or "none")}
    evals = members = nonmembers = 0
    for smart in (True, False):
        try:
            parser = L.LLParser(gk.TOKENIZER, productions=make_prods(), start_symbol_name="E", smart_factorization=smart,
                                **({} if skip_arg is None else {"skip_tokens": set(skip_arg)}), **tokcfg)
        except Exception as e:   # noqa
            f.append(("constructor_raises_" + type(e).__name__, f"shape={shape} excl={excl!r} skip_tokens={skip_arg!r}: {str(e)[-200:]}"))
            continue
        if parser.is_ambiguous():
            f.append(("ll1_grammar_reported_ambiguous", f"smart_factorization={smart} shape={shape} excl={excl!r} skip_tokens={skip_arg!r}"))
            continue
        for toks in case["inputs"]:
            text, arr = ate_text(toks, skip)
            kind, res, _st = parse_guarded(L, parser, text, len(arr) + 2, do_cleanup=False)
            evals += 1
            m = member(arr)
            members += m
            nonmembers += not m
            ctx = (f"smart_factorization={smart} shape={shape} AnyTokenExcept{tuple(excl)!r} skip_tokens={skip_arg!r} text={text!r} "
                   f"tokens reaching the parser={arr!r}")
            if kind == "tree":
                if not m:
                    f.append(("non_sentence_accepted", ctx))
                else:
                    leaves = []

                    def walk(x):
                        if isinstance(x.value, list):
                            for c in x.value:
                                if c is not None:
                                    walk(c)
                        elif x.value is not None or x.name in arr:
                            leaves.append(x.name)
                    walk(res)
                    if leaves != arr:
                        f.append(("tree_is_not_the_unique_derivation", ctx + f" leaves={leaves!r}"))
            elif kind == "parsing_error":
                if m:
                    f.append(("sentence_rejected", ctx))
            elif kind == "inconclusive":
                classes.add("inconclusive_push_budget")
            elif kind == "diverged":
                f.append(("parse_diverges", ctx + f": {res}"))
            else:
                f.append(("non_sentence_raises_%s" % (type(res).__name__ if kind == "exception" else "LexicalError"),
                          ctx + f": {res}"))
            if any(t in ("SPACE", "COMMENT") and t not in skip for t in arr):
                classes.add("blank_or_comment_token_reaches_the_parser")
            if len(f) > 3:
                break
        if len(f) > 3:
            break
    return Outcome(members > 0 and nonmembers > 0, sorted(classes), f[:4], evals=evals)


@st.composite
def st_ate_case(draw):
    shape = draw(st.sampled_from(["seq", "pair", "nest"]))
    excl = draw(st.lists(st.sampled_from(ATE_TERMS), max_size=4, unique=True))
    inputs = []
    for _ in range(draw(st.integers(4, 10))):
        body = draw(st.lists(st.sampled_from(ATE_TERMS), max_size=5))
        if shape == "nest" and draw(st.booleans()):
            d = draw(st.integers(1, 3))
            body = ["("] * d + body[:1] + [")"] * d
        if shape == "pair" and draw(st.booleans()):
            body = [t for t in body if t != "SPACE"][:2]
        if draw(st.integers(0, 7)):
            body = body + [";"]
        inputs.append(body)
    return {"shape": shape, "excl": excl, "skip": draw(st.integers(0, len(ATE_SKIPS) - 1)), "inputs": inputs,
            "bottomup": draw(st.booleans())}


# ---------------------------------------------------------------------------
# templates whose items end in a nullable part: FOLLOW of the item comes from the template's own productions
# ---------------------------------------------------------------------------

def evaluate_tmpl(case):
    """conflict-free grammars built on ProdSequence / ListProds / MapProds whose element ends in an optional token; the language
    has a closed form (a regular expression over one-letter token codes); every token string up to length 6 is tested"""
    import re
    import ak.llparser as L
    tokcfg, _names = gk.tok_config(True, True)
    shape = case["shape"]
    code = {"WORD": "w", "NUM": "n", "+": "p", ",": "c", ";": "s", "(": "l", ")": "r", "[": "L", "]": "R", "{": "k", "}": "K",
            ":": "d"}
    lex = {"WORD": "ab", "NUM": "7"}
    opt_first = case.get("opt_first")

    def make():
        opt = [(), ("NUM",)] if opt_first else [("NUM",), ()]
        if shape == "seq_closed":
            return {"E": [("(", "S", ")")], "S": L.ProdSequence("EL"), "EL": [("WORD", "OPT")], "OPT": opt}, "l(wn?)*r", "wnlr"
        if shape == "seq_open":
            return {"E": [("S",)], "S": L.ProdSequence("EL"), "EL": [("WORD", "OPT")], "OPT": opt}, "(wn?)*", "wn"
        if shape == "seq_two":
            return ({"E": [("S", ";", "T")], "S": L.ProdSequence("EL"), "T": L.ProdSequence("EL", "+"), "EL": [("WORD", "OPT")],
                     "OPT": opt}, "(wn?)*s(wn?|p)*", "wnsp")
        if shape == "list":
            return ({"E": [("LST", ";")], "LST": L.ListProds("[", "EL", ",", "]", allow_final_delimiter=case["final"]),
                     "EL": [("WORD", "OPT")], "OPT": opt},
                    "L(wn?(cwn?)*%s)?Rs" % ("c?" if case["final"] else ""), "wncLRs")
        if shape == "list_nobr":
            return ({"E": [("LST", ";")], "LST": L.ListProds(None, "EL", ",", None), "EL": [("WORD", "OPT")], "OPT": opt},
                    "(wn?(cwn?)*)?s", "wncs")
        return ({"E": [("MAP", ";")], "MAP": L.MapProds("{", "WORD", ":", "VAL", ",", "}", allow_final_delimiter=case["final"]),
                 "VAL": [("WORD", "OPT")], "OPT": opt},
                "k(wdwn?(cwdwn?)*%s)?Ks" % ("c?" if case["final"] else ""), "wndckKs")
    f = []
    classes = {"template_" + shape}
    evals = members = nonmembers = 0
    for smart in (True, False):
        prods, rx, alphabet = make()
        if case.get("bottomup"):
            prods = {k: prods[k] for k in reversed(list(prods))}
        inv = {v: k for k, v in code.items()}
        try:
            parser = L.LLParser(gk.TOKENIZER, productions=prods, start_symbol_name="E", smart_factorization=smart, **tokcfg)
        except Exception as e:   # noqa
            f.append(("constructor_raises_" + type(e).__name__, f"template shape={shape} case={case!r}: {str(e)[-200:]}"))
            continue
        if parser.is_ambiguous():
            classes.add("parser_reports_conflicts")
            continue
        classes.add("conflict_free_smart" if smart else "conflict_free_plain")
        rxc = re.compile(rx)
        maxlen = case["maxlen"]
        for n in range(maxlen + 1):
            for tup in itertools.product(alphabet, repeat=n):
                word = "".join(tup)
                m = rxc.fullmatch(word) is not None
                if not m and n == maxlen and n > 4 and (h64_small(word) % 4):
                    continue          # a quarter of the longest non-members is enough
                text = " ".join(lex.get(inv[ch], inv[ch]) for ch in word)
                kind, res, _st = parse_guarded(L, parser, text, n + 2, do_cleanup=False)
                evals += 1
                members += m
                nonmembers += not m
                ctx = f"smart_factorization={smart} template shape={shape} options={ {k: v for k, v in case.items() if k != 'maxlen'}!r} text={text!r}"
                if kind == "tree" and not m:
                    f.append(("non_sentence_accepted", ctx))
                elif kind == "parsing_error" and m:
                    f.append(("sentence_rejected", ctx + f": {str(res)[:160]}"))
                elif kind == "diverged":
                    f.append(("parse_diverges", ctx + f": {res}"))
                elif kind in ("exception", "lexical_error"):
                    f.append(("non_sentence_raises_%s" % (type(res).__name__ if kind == "exception" else "LexicalError"),
                              ctx + f": {res}"))
                if len(f) > 3:
                    break
            if len(f) > 3:
                break
        if len(f) > 3:
            break
    return Outcome(members > 0 and nonmembers > 0, sorted(classes), f[:4], evals=evals)


def h64_small(word):
    from vlib.core import h64
    return h64(word)


def tmpl_cases():
    for shape in ("seq_closed", "seq_open", "seq_two", "list", "list_nobr", "map"):
        for final in ((True, False) if shape in ("list", "map") else (None,)):
            for opt_first in (False, True):
                for bottomup in (False, True):
                    yield {"shape": shape, "final": final, "opt_first": opt_first, "bottomup": bottomup,
                           "maxlen": 6 if len(shape) and shape in ("seq_closed", "seq_open", "seq_two", "list_nobr") else 5 if shape == "list" else 6}


def parts(tier):
    k = 1 if tier == "quick" else 25
    return [Part("grammars", evaluate, strategy=st_case, examples=3200 * k),
            Part("any_token_except", evaluate_ate, strategy=st_ate_case, examples=1200 * k),
            Part("templates_nullable_tail", evaluate_tmpl, enumerate=tmpl_cases, exhaustive=True,
                 note="ProdSequence / ListProds / MapProds whose element ends in an optional token; all token strings up to length 5-6")]


TECHNIQUE = "differential property-based testing (Hypothesis): parser vs independent chart recogniser and own LL(1) predictive parser; exhaustive enumeration of all short token strings per generated grammar; closed-form membership for AnyTokenExcept shapes under explicit skip_tokens"
LEVEL_TEXT = ("Exploration: ~1.6k generated grammars per quick run (64k thorough); for each conflict-free (grammar, setting) every token "
              "string up to length 5 (364 strings) plus sampled sentences and mutations is parsed and the accept/reject decision "
              "compared with the chart recogniser; for LL(1)-as-written grammars the tree is compared with the unique derivation. "
              "Bounded to <=4 non-terminals and <=10 tokens.")
LEVEL_NOTE = "Trusted: vlib/grammar.py analyses (nullable/FIRST/FOLLOW/predict, chart recogniser, predictive parser)."
