"""C13 - a table's reported format string reproduces the table (history-based).

A case is a table case (vlib.tables, without value-path columns) plus a list of operations on
the table's life: print / set fmt / remove_columns. After the construction and after every
operation the reported string str(t.fmt) is fed (a) to the PPTable constructor together with the
same records / fields / types / titles / header / footer and (b) to the fmt setter of the table
itself; both must give exactly the rendering the table has at that moment.
"""
import re

from hypothesis import strategies as st

from vlib import tables
from vlib.core import Outcome, Part

ID = "C13"
RULE = ("table cases as in C12 restricted to records with explicit fields or namedtuples (no value-path columns), "
        "followed by 0-6 life-cycle operations: print (whole / by lines, colour / no colour), fmt = generated column and "
        "limit descriptions, fmt = '' / ';' / ';;', rejected formats, remove_columns, a sibling table made from the table's "
        "format object (fmt_obj=) with other records; at every state str(t.fmt) is checked through the "
        "constructor and (when the generated flag says so) through the setter, before and after printing. Non-trivial = "
        "a state that is 'printed' with a ranged (min<max) column, or with active limits, or with a repeated / hidden "
        "field; distinct by case hash."
        " Also: stale (n) annotations, limits=(n, None), sql-like field names such as count(*), str-subclass values, centred field type (all through vlib/tables).")
ASSUMPTIONS = [
    "value-path ('<-') columns and plain tuples without field names are outside the claimed domain",
    "'same rendering' = identical no-colour text and identical coloured text under the global configuration",
    "the constructor twin gets the same records, fields, field types, titles, header and footer, but no limits= / skip_columns= arguments",
    "the column part of str(twin.fmt) is compared modulo the negotiated-width annotation '(n)'",
]


def render(t):
    return str(t.ch_text(no_color=True)), str(t.ch_text())


def strip_annot(s):
    # "(n)" at the end of a column description only (a field may be called 'n(1)')
    return re.sub(r"\(\d+\)(?=,|$)", "", s.split(";")[0])


def twin_kwargs(P, case):
    kw = tables.ctor_kwargs(P, case, use_case_fmt=False)
    kw.pop("limits", None)
    kw.pop("skip_columns", None)
    return kw


def fmt_from_spec(case, spec):
    parts = []
    cols = spec.get("cols")
    if cols == "*":
        parts.append("*")
    elif cols is None:
        parts.append("")
    else:
        parts.append(",".join(tables.col_fmt(case, c) for c in cols))
    lim = spec.get("limits")
    if lim == "*":
        parts.append("*")
    elif lim is not None:
        parts.append("%d:%d" % tuple(lim))
    return ";".join(parts)


def sibling_case(case, how):
    """the same table description with other records: longer / shorter texts, larger numbers, other order"""
    def tr(v):
        if isinstance(v, bool) or v is None:
            return v
        if isinstance(v, str):
            return v * 3 if how % 2 else v[:1]
        if isinstance(v, int):
            return v * 1000 + 7 if how % 2 else v % 10
        return v
    enum_fields = {i for i, fn in enumerate(case["fields"]) if fn in (case.get("enums") or {})}
    recs = [[v if i in enum_fields else tr(v) for i, v in enumerate(r)] for r in case["records"][::-1]]
    if how >= 2:
        recs = recs + recs[:2]
    c2 = dict(case, records=recs)
    c2.pop("same_as", None)
    return c2


class Ctx:
    def __init__(self):
        self.f = []
        self.info = set()
        self.nt = False


def state_classes(ctx, case, t, printed):
    s = str(t.fmt)
    colpart = s.split(";")[0]
    names = [c.split(":")[0].split("/")[0].rstrip("!") for c in colpart.split(",")] if colpart else []
    ranged = bool(re.search(r":\d+-\d+", colpart))
    if printed and ranged:
        ctx.info.add("printed_with_ranged_column")
        ctx.nt = True
    if len(s.split(";")) > 1 and s.split(";")[1] not in ("", "*"):
        ctx.info.add("limits_in_fmt_string")
        if printed:
            ctx.nt = True
    if len(set(names)) < len(names):
        ctx.info.add("repeated_field")
        ctx.nt = True
    if len(set(names)) < len(case["fields"]):
        ctx.info.add("hidden_or_removed_field")
        if printed:
            ctx.nt = True
    if "!" in colpart:
        ctx.info.add("break_by")
    if "/" in colpart:
        ctx.info.add("modifier")


def check_string(ctx, P, case, t, s, R, when):
    """s = str(t.fmt) taken in state `when`; R = rendering of t."""
    try:
        tw = P.PPTable(tables.make_records(case), fmt=s, **twin_kwargs(P, case))
        cols_tw = strip_annot(str(tw.fmt))
        Rt = render(tw)
    except Exception as e:   # noqa
        ctx.f.append(("constructor_rejects_reported_fmt_%s_%s" % (when, type(e).__name__), f"fmt={s!r}: {e}"))
        return
    if Rt != R:
        ctx.f.append(("constructor_with_reported_fmt_renders_differently_" + when,
                      f"fmt={s!r}\n--- table\n{R[0]}\n--- twin\n{Rt[0]}"))
    if cols_tw != strip_annot(s):
        ctx.f.append(("reported_fmt_parses_to_other_columns", f"{s!r} -> {cols_tw!r}"))


def verify(ctx, P, case, t, apply_setter, label):
    s1 = str(t.fmt)
    try:
        R = render(t)
    except Exception as e:   # noqa
        ctx.f.append(("render_raises_" + type(e).__name__, f"after {label}: {e}"))
        return None
    check_string(ctx, P, case, t, s1, R, "before_print")
    s2 = str(t.fmt)
    state_classes(ctx, case, t, True)
    check_string(ctx, P, case, t, s2, R, "after_print")
    if apply_setter:
        try:
            t.fmt = s2
            R2 = render(t)
        except Exception as e:   # noqa
            ctx.f.append(("setter_rejects_reported_fmt_" + type(e).__name__, f"after {label}: fmt={s2!r}: {e}"))
            return R
        if R2 != R:
            ctx.f.append(("setter_with_reported_fmt_changes_rendering", f"after {label}: fmt={s2!r}\n{R[0]}\n---\n{R2[0]}"))
    return R


def evaluate(case):
    import ak.ppobj as P
    import ak.color as C
    ctx = Ctx()
    try:
        R0 = render(tables.build(P, case))
        t = tables.build(P, case)
    except Exception as e:   # noqa
        return Outcome(False, [], [("construction_raises_" + type(e).__name__, str(e))])
    # fresh state: reported string through the setter before anything was printed
    state_classes(ctx, case, t, False)
    s0 = str(t.fmt)
    if case.get("fresh_setter"):
        try:
            t.fmt = s0
        except Exception as e:   # noqa
            ctx.f.append(("setter_rejects_reported_fmt_fresh_" + type(e).__name__, f"fmt={s0!r}: {e}"))
    R = verify(ctx, P, case, t, False, "construction")
    if R is not None and R != R0 and not ctx.f:
        ctx.f.append(("setter_with_reported_fmt_changes_rendering_fresh", f"fmt={s0!r}\n{R0[0]}\n---\n{R[0]}"))
    nops = 0
    for op in case.get("ops", []):
        if ctx.f or R is None:
            break
        kind = op[0]
        label = repr(op)
        try:
            if kind == "print":
                if op[1] == "lines_nc":
                    txt = "\n".join(tables.line_text(C, ln).plain_text() for ln in t.ch_text(no_color=True))
                    if txt != R[0]:
                        ctx.f.append(("lines_differ_from_whole_text", label))
                elif op[1] == "whole_color":
                    str(t)
                else:
                    str(t.ch_text(no_color=True))
                ctx.info.add("op_print")
            elif kind == "setfmt":
                t.fmt = fmt_from_spec(case, op[1])
                ctx.info.add("op_setfmt")
            elif kind == "setfmt_raw":
                before_cols = strip_annot(str(t.fmt))
                t.fmt = op[1]
                Rn = render(t)
                if Rn != R:
                    ctx.f.append(("empty_fmt_changes_rendering", f"t.fmt = {op[1]!r}\n{R[0]}\n---\n{Rn[0]}"))
                if strip_annot(str(t.fmt)) != before_cols:
                    ctx.f.append(("empty_fmt_changes_columns", f"t.fmt = {op[1]!r}: {before_cols!r} -> {str(t.fmt)!r}"))
                ctx.info.add("op_setfmt_empty")
            elif kind == "setfmt_bad":
                # a format the table must reject (unknown field / unknown modifier), carrying a limits section: the table
                # stays exactly as it was
                try:
                    t.fmt = op[1]
                    rejected = False
                except Exception:   # noqa
                    rejected = True
                if rejected:
                    ctx.info.add("op_rejected_fmt")
                    Rn = render(t)
                    if Rn != R:
                        ctx.f.append(("rejected_fmt_changes_rendering", f"t.fmt = {op[1]!r} (rejected)\n{R[0]}\n---\n{Rn[0]}"))
            elif kind == "set_limits":
                t.fmt.set_limits(tuple(op[1]))         # the format object's own method
                ctx.info.add("op_set_limits_on_the_format_object")
            elif kind == "sibling":
                # another table made from this table's format object (fmt_obj=), with other records: its reported string
                # must reproduce *it*
                case2 = sibling_case(case, op[1])
                kw2 = {k: v for k, v in tables.ctor_kwargs(P, case2, use_case_fmt=False).items() if k in ("header", "footer")}
                t2 = P.PPTable(tables.make_records(case2), fmt_obj=t.fmt, **kw2)
                n0 = len(ctx.f)
                verify(ctx, P, case2, t2, bool(op[-1]), label)
                ctx.f[n0:] = [(b + "_for_table_made_from_format_object", d) for b, d in ctx.f[n0:]]
                ctx.info.add("op_sibling_from_fmt_obj")
            elif kind == "remove":
                vis = strip_annot(str(t.fmt)).split(",")
                names = {c.split(":")[0].split("/")[0].rstrip("!") for c in vis}
                rm = [n for n in op[1] if n in names]
                if len(names - set(rm)) == 0:
                    continue
                t.remove_columns(op[1])
                ctx.info.add("op_remove_columns")
        except Exception as e:   # noqa
            ctx.f.append(("operation_raises_%s_%s" % (kind, type(e).__name__), f"{label}: {e}"))
            break
        nops += 1
        R = verify(ctx, P, case, t, bool(op[-1]) if kind not in ("setfmt_raw", "setfmt_bad") else False, label)
    return Outcome(ctx.nt, sorted(ctx.info), ctx.f, evals=2 + 3 * nops)


@st.composite
def st_case(draw):
    case = draw(tables.st_table_case(max_records=14, allow_dict=False))
    if case["kind"] == "tuple_nofields":
        case["kind"] = "tuple"
        case["fields"] = ["f%d" % i for i in range(len(case["fields"]))]
    nf = len(case["fields"])

    def st_cols():
        def one():
            mn = draw(st.none() | st.integers(0, 9))
            mx = None if mn is None else mn + draw(st.sampled_from([0, 0, 1, 3, 8]))
            fi = draw(st.integers(0, nf - 1))
            mod = None
            if case["fields"][fi] in case["enums"]:
                mod = draw(st.sampled_from([None, "val", "name", "full"]))
            return {"f": fi, "min": mn, "max": mx, "brk": draw(st.integers(0, 3)) == 0, "mod": mod,
                    "hidden": False}
        cols = [one() for _ in range(draw(st.integers(1, 4)))]
        if draw(st.integers(0, 2)) == 0:
            # the same field shown twice, once as break-by column and once not
            c = dict(draw(st.sampled_from(cols)))
            c["brk"] = not c["brk"]
            cols.insert(draw(st.integers(0, len(cols))), c)
        return cols
    ops = []
    for _ in range(draw(st.integers(0, 6))):
        k = draw(st.sampled_from(["print", "print", "setfmt", "setfmt", "setfmt_raw", "remove", "setfmt_bad", "sibling", "set_limits"]))
        flag = draw(st.booleans())
        if k == "sibling":
            ops.append(["sibling", draw(st.integers(0, 3)), flag])
        elif k == "set_limits":
            ops.append(["set_limits", [draw(st.integers(0, 4)), draw(st.integers(0, 4))], flag])
        elif k == "print":
            ops.append(["print", draw(st.sampled_from(["whole_nc", "whole_color", "lines_nc"])), flag])
        elif k == "setfmt":
            ck = draw(st.sampled_from(["cols", "cols", "star", "none"]))
            cols = st_cols() if ck == "cols" else ("*" if ck == "star" else None)
            lim = draw(st.none() | st.just("*") | st.tuples(st.integers(0, 5), st.integers(0, 5)).map(list))
            ops.append(["setfmt", {"cols": cols, "limits": lim}, flag])
        elif k == "setfmt_raw":
            ops.append(["setfmt_raw", draw(st.sampled_from(["", ";", ";;"])), flag])
        elif k == "setfmt_bad":
            f0 = case["fields"][0]
            bad_cols = draw(st.sampled_from(["nosuch", f0 + ",nosuch:3", f0 + "/nosuchmod", "nosuch!:2-5," + f0, f0 + ":2,zz"]))
            lim = draw(st.sampled_from([";1:1", ";0:2", ";2:0", ";*", ";0:0", ""]))
            ops.append(["setfmt_bad", bad_cols + lim, flag])
        else:
            ops.append(["remove", draw(st.lists(st.sampled_from(case["fields"] + ["nosuch"]), max_size=2)), flag])
    if nf >= 2 and draw(st.integers(0, 5)) == 0 and case["records"]:
        # a field shown twice - first as break-by column, later as ordinary one -, limits that count the break lines, a print,
        # then the removal of that field (the set of visible records changes with the break lines)
        fa, fb = draw(st.permutations(list(range(nf))))[:2]
        moda = draw(st.sampled_from([None, "val", "name", "full"])) if case["fields"][fa] in case["enums"] else None
        modb = draw(st.sampled_from([None, "val", "name", "full"])) if case["fields"][fb] in case["enums"] else None
        first_brk = draw(st.sampled_from([True, True, False]))
        case["cols"] = [{"f": fa, "min": None, "max": None, "brk": first_brk, "mod": moda, "hidden": False},
                        {"f": fb, "min": 1, "max": 30, "brk": False, "mod": modb, "hidden": False},
                        {"f": fa, "min": 6, "max": 6, "brk": not first_brk, "mod": moda, "hidden": False}]
        case["limits"] = [draw(st.integers(1, 4)), draw(st.sampled_from([0, 0, 1]))]
        case["limits_via"] = "fmt"
        case["skip"] = []
        ops = [["print", "whole_nc", True], ["remove", [case["fields"][fa]], draw(st.booleans())]] + ops[:2]
    case["ops"] = ops
    case["fresh_setter"] = draw(st.booleans())
    return case


def regression_cases():
    # F8: fmt="id:2-5", print, t.fmt = str(t.fmt)
    yield {"kind": "tuple", "fields": ["f0", "f1"], "records": [[1, "abc"], [22, "x"]],
           "cols": [{"f": 0, "min": 2, "max": 5, "brk": False, "mod": None, "hidden": False}],
           "titles": {}, "enums": {}, "header": None, "footer": None, "limits": None, "limits_via": "fmt",
           "skip": [], "ops": [["print", "whole_nc", True]], "fresh_setter": False}


def parts(tier):
    k = 1 if tier == "quick" else 40
    return [
        Part("regressions", evaluate, enumerate=regression_cases, exhaustive=True),
        Part("life_cycles", evaluate, strategy=st_case, examples=5000 * k),
    ]


TECHNIQUE = "stateful property-based testing (Hypothesis-generated life-cycle histories): round trip of str(table.fmt) through the constructor and the setter at every state, compared by rendering"
LEVEL_TEXT = ("Exploration: ~3k generated table life cycles per quick run (120k thorough), ~4 states each; at every state the "
              "reported format string is round-tripped through both entry points, before and after printing, and the renderings "
              "are compared character for character.")
LEVEL_NOTE = "Trusted: rendering equality as the observable; vlib/tables.py generators. Value-path columns excluded (see ASSUMPTIONS)."
