"""C10 - rendering is pure: colours never change layout and output has no memory.

Histories of configuration life-cycle events and renderings in one long-lived process; every rendering is compared
with the baseline for the same (object spec, configuration spec, options) produced by a process without any history
(vlib/baseline_server.py), with its own no-colour rendering (through the independent SGR interpreter) and with its
line-by-line form.
"""
import gc
import json
import os
import subprocess
import sys

from hypothesis import strategies as st

from vlib import sgr
from vlib import tables
from vlib.core import Outcome, Part, VERIF

ID = "C10"
RULE = ("histories of 12-32 operations in a process that keeps its state from case to case: create a colours configuration "
        "from a generated map (flat ids incl. TABLE.* / RECORD.* / GHIST.* / HDOC.*, no_color variants), drop a configuration "
        "(+ gc.collect()), install a configuration as the global one, register extra syntax items in a live configuration, "
        "render an object (pretty-printer result in JSON / Python mode, table with default / title / enum columns and limits, "
        "record formatter, two history reports with component bumps / not built / not merged, console help for a class, an "
        "object, a bound method and an http method caller, the configuration report) under a live configuration / the global "
        "one, coloured or no_color, with palette class or palette object, consumed whole / by lines / both in either order, on "
        "the long-lived object or on a fresh copy. Non-trivial = the history holds >=2 different configurations, a drop, and a "
        "rendering of an enum / compound-palette object after the drop; distinct by operation-sequence hash."
        " Also: dictionaries with number / boolean / None keys; str-subclass cell values; enum syntax names that are ids of the colours configuration; user-defined centred field type.")
ASSUMPTIONS = [
    "configuration maps in the histories part never point a component's syntax at a syntax declared only by another component's palette (known finding K1: such references resolve lazily; exercised by the part known_cross_component_reference)",
    "finding identity-keyed cache bugs relies on CPython reusing the address of a dropped object (frequent, not guaranteed); judging does not: the baseline comes from a process without history",
    "extra syntax items registered in the histories use ids that no component palette declares (otherwise first-registration-wins makes the result order dependent by design, see C14)",
    "console help takes its colours from the global configuration in force when the help command object is created; its no-colour form is rendered under a no_color global configuration",
    "ColorsConfig.make_report() is not among the rendered objects: it lists the components registered so far and depends on history by design",
    "lines produced by iteration are normalised through CHText(line)",
]

IDS = ["TEXT", "NAME", "NUMBER", "WARN", "ERROR", "TABLE.BORDER", "TABLE.WARN", "TABLE.HEADER", "RECORD.NUMBER",
       "RECORD.KEYWORD", "RECORD.TITLE", "RECORD.COL_TITLE", "GHIST.REPO", "GHIST.BRANCH", "GHIST.HASH", "GHIST.VERSION",
       "GHIST.VER_NOT_BUILT", "GHIST.VER_NOT_MERGED", "HDOC.ATTR", "HDOC.TAG", "HDOC.FUNC_NAME"]
COLORS = ["RED", "GREEN:bold", "BLUE/YELLOW", "200", "(1,2,3)", "g7:underline", "KEYWORD", "OK:crossed", "-", "MAGENTA:faint",
          "CYAN/g3:blink", "X.A:bold", "USER.B", "MAGENTA:no_faint", "GREEN:no_bold", "g7:no_underline", "RED:bold,no_blink",
          "RED:blink,no_bold", "BLUE/YELLOW:crossed", "BLUE/YELLOW:no_crossed", "KEYWORD:no_bold", "/g3", "CYAN/-"]
REG_ITEMS = [{"X.A": "RED"}, {"USER.B": "BLUE:underline"}, {"X.A": "GREEN", "X.C": "X.A:bold"}, {"Y.UNUSED": "WARN"}]


class Server:
    def __init__(self):
        env = dict(os.environ, PYTHONHASHSEED="0")
        self.p = subprocess.Popen([sys.executable, "-m", "vlib.baseline_server"], cwd=VERIF, env=env,
                                  stdin=subprocess.PIPE, stdout=subprocess.PIPE, text=True, bufsize=1)
        self.cache = {}
        self.requests = 0

    def ask(self, req):
        key = json.dumps(req, sort_keys=True)
        if key in self.cache:
            return self.cache[key]
        self.p.stdin.write(key + "\n")
        self.p.stdin.flush()
        line = self.p.stdout.readline()
        if not line:
            raise RuntimeError("baseline server died")
        res = json.loads(line)
        self.requests += 1
        if len(self.cache) < 20000:
            self.cache[key] = res
        return res


_SERVER = {}


def server():
    pid = os.getpid()
    if _SERVER.get("pid") != pid:
        _SERVER["pid"] = pid
        _SERVER["srv"] = Server()
    return _SERVER["srv"]


def evaluate(case):
    import ak.color as C
    from vlib import render_objs as RO
    srv = server()
    f = []
    classes = set()
    live = []                       # [{"obj": ColorsConfig, "spec": {...}}]
    default_spec = {"map": {}, "no_color": False, "regs": []}
    global_entry = [None]           # live entry installed as global, or None -> default
    saved_global = C._GLOBAL_COLORS_CONF
    C.set_global_colors_config(None)          # every case starts from a fresh default global configuration
    objs = {}
    dropped = 0
    distinct_confs = set()
    nt = False
    nrender = 0
    try:
        for step, op in enumerate(case["ops"]):
            if f:
                break
            kind = op[0]
            if kind == "mkconf":
                spec = json.loads(json.dumps(case["confs"][op[1] % len(case["confs"])]))
                spec.setdefault("regs", [])
                try:
                    live.append({"obj": RO.build_config(C, spec), "spec": spec})
                except Exception as e:   # noqa
                    f.append(("config_creation_raises_" + type(e).__name__, f"{spec!r}: {e}"))
                distinct_confs.add(json.dumps(spec, sort_keys=True))
            elif kind == "drop":
                if live:
                    ent = live.pop(op[1] % len(live))
                    if global_entry[0] is ent:
                        C.set_global_colors_config(None)
                        global_entry[0] = None
                    del ent
                    gc.collect()
                    dropped += 1
                    classes.add("config_dropped")
            elif kind == "setglobal":
                if op[1] < 0 or not live:
                    C.set_global_colors_config(None)
                    global_entry[0] = None
                else:
                    ent = live[op[1] % len(live)]
                    C.set_global_colors_config(ent["obj"])
                    global_entry[0] = ent
                classes.add("global_config_installed")
            elif kind == "register":
                if live:
                    ent = live[op[1] % len(live)]
                    items = REG_ITEMS[op[2] % len(REG_ITEMS)]
                    ent["obj"].add_new_items(dict(items), "reg")
                    ent["spec"]["regs"].append(items)
                    classes.add("extra_items_registered")
            elif kind == "render":
                # in a helper, so that no local variable keeps a dropped configuration (and its palettes) alive
                ospec = do_render(C, RO, srv, case, op, step, live, global_entry, default_spec, objs, f, classes)
                nrender += 1
                if ospec is not None and dropped and len(distinct_confs) >= 2 and ospec["k"] in ("table", "record"):
                    nt = True
                    if has_enum(ospec):
                        classes.add("enum_object_rendered_after_drop")
    finally:
        C.set_global_colors_config(saved_global)
    return Outcome(nt, sorted(classes), f[:3], key=case["ops"], evals=nrender)


def do_render(C, RO, srv, case, op, step, live, global_entry, default_spec, objs, f, classes):
    opts = op[2]
    ospec = case["objs"][op[1] % len(case["objs"])]
    if opts.get("conf") == "global" or not live:
        ent = global_entry[0]
        conf_obj = None
        cspec = ent["spec"] if ent is not None else default_spec
        is_global = True
    else:
        ent = live[opts["conf"] % len(live)]
        conf_obj, cspec, is_global = ent["obj"], ent["spec"], False
    key = json.dumps(ospec, sort_keys=True)
    try:
        if opts.get("fresh") or key not in objs:
            o = RO.Obj(ospec)
            if not opts.get("fresh"):
                objs[key] = o
        else:
            o = objs[key]
    except Exception as e:   # noqa
        f.append(("object_construction_raises_" + type(e).__name__, f"{ospec!r}: {e}"))
        return None
    label = f"step {step}: render {ospec['k']} under {'global ' if is_global else ''}{cspec!r} opts={opts!r}"
    check_render(C, RO, srv, o, ospec, conf_obj, cspec, is_global, opts, f, classes, label)
    return ospec


def has_enum(ospec):
    return ospec["k"] == "table" and bool(ospec["case"].get("enums"))


def check_render(C, RO, srv, o, ospec, conf_obj, cspec, is_global, opts, f, classes, label):
    no_color = bool(opts.get("no_color"))
    pal = opts.get("palette")
    consume = opts.get("consume", "whole")
    try:
        res = o.render(C, conf_obj, no_color=no_color, palette_opt=pal, consume=consume)
    except Exception as e:   # noqa
        import traceback
        where = traceback.extract_tb(e.__traceback__)[-1].name
        f.append(("render_raises_%s_in_%s" % (type(e).__name__, where), f"{label}: {e}"))
        return
    classes.add("render_" + ospec["k"])
    classes.add("consume_" + consume)
    whole, lines = res["whole"], res["lines"]
    if whole is not None and lines is not None and whole != lines:
        f.append(("line_by_line_differs_from_whole", f"{label}\n--- whole\n{whole}\n--- lines\n{lines}"))
        return
    S = whole if whole is not None else lines
    # history independence
    base = srv.ask({"obj": (dict(ospec, _as_final=True) if ospec.get("refmt") else ospec), "conf": cspec if (not is_global or cspec.get("map") or cspec.get("regs") or cspec.get("no_color")) else None,
                    "global": is_global, "no_color": no_color, "palette": pal})
    if "error" in base:
        if base.get("in_package"):
            f.append(("render_raises_%s_in_%s_in_pristine_process" % (base.get("etype"), base.get("where")),
                      f"{label}: {base['error'][-400:]}"))
            return
        raise RuntimeError("baseline server: " + base["error"])
    B = base["whole"] if whole is not None else base["lines"]
    if S != B:
        stripped_same = _safe_strip(S) == _safe_strip(B)
        kind = "colors_depend_on_history" if stripped_same else "text_depends_on_history"
        f.append((f"{kind}_{ospec['k']}", f"{label}\n--- got\n{S!r}\n--- pristine baseline\n{B!r}"))
        return
    # colours never change layout
    try:
        plain = sgr.strip(S)
    except sgr.Malformed as e:
        f.append(("malformed_sequence", f"{label}: {e}"))
        return
    if no_color or cspec.get("no_color"):
        if "\x1b" in S:
            f.append(("escape_in_no_color_output", f"{label}: {S!r}"))
        return
    try:
        if ospec["k"] == "confreport":
            nspec = dict(cspec, no_color=True)
            N = RO.Obj(ospec).render(C, RO.build_config(C, nspec))["whole"]
        else:
            nres = o.render(C, conf_obj, no_color=True, palette_opt=pal, consume="whole")
            N = nres["whole"] if nres["whole"] is not None else nres["lines"]
    except Exception as e:   # noqa
        f.append(("no_color_render_raises_" + type(e).__name__, f"{label}: {e}"))
        return
    if "\x1b" in N:
        f.append(("escape_in_no_color_output", f"{label}: {N!r}"))
    elif plain != N:
        f.append(("stripped_color_rendering_differs_from_no_color_" + ospec["k"], f"{label}\n--- stripped\n{plain}\n--- no_color\n{N}"))
    # same again
    try:
        res2 = o.render(C, conf_obj, no_color=no_color, palette_opt=pal, consume=consume)
        S2 = res2["whole"] if res2["whole"] is not None else res2["lines"]
        if S2 != S:
            f.append(("second_rendering_differs", f"{label}"))
    except Exception as e:   # noqa
        f.append(("second_render_raises_" + type(e).__name__, f"{label}: {e}"))


def _safe_strip(s):
    try:
        return sgr.strip(s)
    except sgr.Malformed:
        return s


# ---------------------------------------------------------------------------

def st_conf():
    return st.builds(lambda m, nc: {"map": m, "no_color": nc, "regs": []},
                     st.dictionaries(st.sampled_from(IDS), st.sampled_from(COLORS), max_size=7),
                     st.sampled_from([False, False, False, False, True]))


def st_pp_value():
    leaf = st.one_of(st.none(), st.booleans(), st.integers(-999, 10**6), st.floats(-10, 10, allow_nan=False),
                     st.sampled_from([0, 1, 2, 10, 0.0, 1.0, 2.0, 10.0, -0.0, 1e1]),
                     st.text("abc xyz", max_size=8), st.text("ab \r\x0c\x1c\x85\u2028\t", min_size=1, max_size=5))
    return st.recursive(leaf, lambda c: st.lists(c, max_size=4).map(lambda x: ["l", x]) |
                        st.lists(st.tuples(st.text("kq", min_size=1, max_size=3), c), max_size=4,
                                 unique_by=lambda kv: kv[0]).map(lambda kv: ["d", [list(p) for p in kv]]), max_leaves=10) | \
        st.just(["l", ["x" * 40, 123456, True, None] * 5]) | \
        st.lists(st.sampled_from([0, 1, 2, 10, 0.0, 1.0, 2.0, 10.0, -0.0, 1e1, True, False, 7, 7.0]), min_size=1, max_size=5).map(
            lambda x: ["l", x]) | \
        st.lists(st.tuples(st.sampled_from(["id", "n", "flag"]), st.sampled_from([0, 1, 0.0, 1.0, 2, 2.0, True, None])), min_size=1,
                 max_size=3, unique_by=lambda kv: kv[0]).map(lambda kv: ["d", [list(p) for p in kv]]) | \
        st.lists(st.tuples(st.sampled_from([0, 1, 0.0, 1.0, True, False, 2, 2.0, None, "1", "", 10, 1e1]),
                           st.sampled_from([0, 1, 1.0, "v", None])), min_size=1, max_size=3,
                 unique_by=lambda kv: (type(kv[0]).__name__, kv[0])).map(
            # dictionaries whose keys are numbers, booleans, None (keys that are equal across types stay apart: one dict
            # per such key, in a list)
            lambda kv: ["l", [["d", [list(p)]] for p in kv]])


@st.composite
def st_obj(draw):
    k = draw(st.sampled_from(["pp", "table", "table", "table", "record", "ghist", "hdoc"]))
    if k == "pp":
        return {"k": "pp", "json": draw(st.booleans()), "value": draw(st_pp_value()), "shared": draw(st.booleans())}
    if k == "table" and draw(st.integers(0, 3)) == 0:
        # a table that reached its format through prints and format changes; the baseline builds it with that format directly
        rc = draw(tables.st_reformat_case(allow_dict=False))
        if rc["a"]["kind"] != "tuple_nofields":      # (explicit columns for plain tuples need 'fields': not constructible directly)
            return {"k": "table", "case": rc["a"], "refmt": {"steps": rc["steps"], "final": rc["final"],
                                                             "first_colored": rc["first_colored"]}}
        return {"k": "table", "case": rc["a"]}
    if k == "table":
        case = draw(tables.st_table_case(max_records=6, allow_dict=False, allow_hidden=False))
        if not case["enums"] and draw(st.booleans()) and case["kind"] != "tuple_nofields" and case["records"]:
            # force an enum column
            fn = case["fields"][0]
            case["enums"] = {fn: {"values": [[1, "One", "name_good"], [2, "Two", "name_warn"], ["k", "Kay", None]],
                                  "missing": ["?", "error"], "tuples": True}}
            for r in case["records"]:
                r[0] = draw(st.sampled_from([1, 2, "k", 7, None]))
        if case["records"] and draw(st.integers(0, 3)) == 0:
            # cell values with characters that str.splitlines() treats as line boundaries (the table does not)
            r = draw(st.sampled_from(case["records"]))
            idxs = [i for i, fn in enumerate(case["fields"]) if fn not in case["enums"]]
            if idxs:
                r[draw(st.sampled_from(idxs))] = draw(st.sampled_from(["a\rb", "x\x0cy", "p\u2028q", "m\x85n", "\x1c", "a\r\nb"]))
        return {"k": "table", "case": case}
    if k == "record":
        nf = draw(st.integers(1, 4))
        fields = ["f%d" % i for i in range(nf)]
        rec = [draw(st.one_of(st.none(), st.booleans(), st.integers(-99, 9999), st.text("ab c", max_size=9))) for _ in fields]
        fmt = ",".join("%s:%d" % (fn, draw(st.integers(1, 8))) for fn in fields)
        return {"k": "record", "fields": fields, "record": rec, "fmt": fmt}
    if k == "ghist":
        if draw(st.booleans()):
            from checks import c06_history_report as c6
            gen = draw(c6.st_case(max_commits=6))
            gen.pop("render", None)
            return {"k": "ghist", "gen": gen}
        return {"k": "ghist", "which": draw(st.integers(0, 1))}
    if k == "hdoc":
        return {"k": "hdoc", "target": draw(st.sampled_from(["Sample", "sample_obj", "sample_method", "caller_obj", "Caller", "caller_needs_basic", "caller_plain",
                                                "Service", "service_obj", "service_fetch", "service_drop", "service_listing",
                                                "service_store"])),
                "level": draw(st.integers(1, 2))}
    return {"k": "confreport"}


def st_case():
    idx = st.integers(0, 20)
    ropts = st.fixed_dictionaries({
        "conf": st.sampled_from(["global"]) | idx | idx,
        "no_color": st.sampled_from([False, False, False, True]),
        "palette": st.sampled_from([None, None, "class", "object"]),
        "consume": st.sampled_from(["whole", "whole", "lines", "both_wl", "both_lw", "zip_ab", "zip_ba", "lines_kept", "lines_after_partial"]),
        "fresh": st.sampled_from([False, False, False, True]),
    })
    op = st.one_of(
        st.tuples(st.just("mkconf"), idx),
        st.tuples(st.just("drop"), idx),
        st.tuples(st.just("setglobal"), st.integers(-1, 10)),
        st.tuples(st.just("register"), idx, st.integers(0, 3)),
        st.tuples(st.just("render"), idx, ropts),
        st.tuples(st.just("render"), idx, ropts),
        st.tuples(st.just("render"), idx, ropts),
    )

    def tolist(x):
        return [tolist(i) for i in x] if isinstance(x, (tuple, list)) else x
    def with_siblings(objs):
        # tables built from one format template (fmt_obj=): same fields / format, other records
        out = list(objs)
        for o in objs:
            if o["k"] == "table" and "refmt" not in o and o["case"]["kind"] in ("tuple", "namedtuple") and o["case"]["records"] \
                    and len(out) < 6:
                c1 = dict(o["case"], via_fmt_obj=True)
                o["case"] = c1
                recs = [[(v * 3 if isinstance(v, str) else (v * 1000 + 7 if isinstance(v, int) and not isinstance(v, bool) else v))
                         for v in r] for r in c1["records"][::-1]]
                if c1.get("enums"):
                    recs = [list(r) for r in c1["records"][::-1]]
                    recs = recs + recs[:1]
                out.append({"k": "table", "case": dict(c1, records=recs)})
        return out
    return st.builds(lambda objs, confs, ops: {"objs": with_siblings(objs), "confs": confs,
                                               "ops": tolist([["mkconf", 0], ["render", 0, {"conf": 0, "no_color": False, "palette": None,
                                                                                      "consume": "whole", "fresh": False}]] + ops)},
                     st.lists(st_obj(), min_size=1, max_size=4), st.lists(st_conf(), min_size=2, max_size=4),
                     st.lists(op, min_size=10, max_size=30))


def regression_cases():
    # F7: table with an enum column rendered under config A; A dropped; rendered under B (same table object)
    tcase = {"kind": "tuple", "fields": ["f0", "f1"], "records": [[1, "a"], [7, "b"], [2, "c"]], "cols": None, "titles": {},
             "enums": {"f0": {"values": [[1, "One", "name_good"], [2, "Two", "name_warn"]], "missing": ["?", "error"], "tuples": True}},
             "header": None, "footer": None, "limits": None, "limits_via": "fmt", "skip": []}
    confs = [{"map": {"ERROR": "RED", "TEXT": "GREEN"}, "no_color": False, "regs": []},
             {"map": {"ERROR": "BLUE/YELLOW", "TEXT": "200", "NUMBER": "CYAN"}, "no_color": False, "regs": []}]
    ropt = {"conf": 0, "no_color": False, "palette": None, "consume": "whole", "fresh": False}
    ops = []
    for i in range(12):
        ops += [["mkconf", i % 2], ["render", 0, ropt], ["drop", 0]]
    yield {"objs": [{"k": "table", "case": tcase}], "confs": confs, "ops": ops}


def eval_cross_component(case):
    """KNOWN FINDING K1 (see DESIGN.md section 2): a configuration may point a syntax of one component at a syntax that
    only another component declares ('TABLE.BORDER': 'GHIST.REPO'). Component defaults are registered lazily, on first
    use with that configuration, so the first object's colours depend on whether the other component has been
    rendered under the configuration before. The main histories part never generates such references (excluded by
    construction); this part exercises exactly that situation so that the finding stays visible and identified."""
    import ak.color as C
    from vlib import render_objs as RO
    f = []
    spec = case["conf"]
    conf = RO.build_config(C, spec)
    first = RO.Obj(case["first"])
    other = RO.Obj(case["other"])
    s1 = first.render(C, conf)["whole"]
    other.render(C, conf)
    s2 = first.render(C, conf)["whole"]
    if s1 != s2:
        kind = "colors" if _safe_strip(s1) == _safe_strip(s2) else "text"
        f.append((f"cross_component_syntax_reference_resolves_only_after_other_component_was_rendered_{kind}",
                  f"config {spec['map']!r}: {case['first']['k']} rendered, then {case['other']['k']}, then "
                  f"{case['first']['k']} again: {s1[:60]!r} vs {s2[:60]!r}"))
    return Outcome(True, ["cross_component_reference"], f, key=[spec["map"], case["first"]["k"], case["other"]["k"]])


def cross_component_cases():
    table = {"k": "table", "case": {"kind": "tuple", "fields": ["a", "b"], "records": [[1, "x"]], "cols": None, "titles": {},
                                    "enums": {}, "header": None, "footer": None, "limits": None, "limits_via": "fmt", "skip": []}}
    ghist = {"k": "ghist", "which": 0}
    hdoc = {"k": "hdoc", "target": "Sample", "level": 1}
    yield {"conf": {"map": {"TABLE.BORDER": "GHIST.REPO"}, "no_color": False, "regs": []}, "first": table, "other": ghist}
    yield {"conf": {"map": {"GHIST.HASH": "TABLE.HEADER"}, "no_color": False, "regs": []}, "first": ghist, "other": table}
    yield {"conf": {"map": {"TABLE.HEADER": "GHIST.BRANCH:underline"}, "no_color": False, "regs": []}, "first": table, "other": ghist}


def parts(tier):
    k = 1 if tier == "quick" else 15
    return [
        Part("regressions", evaluate, enumerate=regression_cases, exhaustive=True),
        Part("known_cross_component_reference", eval_cross_component, enumerate=cross_component_cases, exhaustive=True,
             note="known finding K1, kept visible; such references are excluded from the histories part by construction"),
        Part("histories", evaluate, strategy=st_case, examples=3200 * k),
    ]


TECHNIQUE = "stateful property-based testing (Hypothesis-generated histories in a long-lived process) with a differential oracle: every rendering is compared with the rendering of the same specs in a process without history (fork server started as a fresh interpreter), with its no-colour form via an independent SGR interpreter, and with its line-by-line form"
LEVEL_TEXT = ("Exploration: ~3.2k generated histories per quick run (96k thorough), ~10 renderings each, executed back to back in "
              "16 long-lived worker processes so that caches, registered components, dropped configurations and the global "
              "configuration accumulate; each rendering must equal the baseline of a history-free process, its stripped form must "
              "equal the no_color rendering and the line-by-line form. Identity-keyed cache bugs are found when the allocator reuses "
              "an address, which a fixed operation sequence does deterministically.")
LEVEL_NOTE = "Trusted: vlib/baseline_server.py + vlib/render_objs.py (same builder code in both processes), vlib/sgr.py."
