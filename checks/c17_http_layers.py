"""C17 - layered HTTP connections compose adapters without side effects (history-based).

Every live connection / method caller carries a spec fixed at its creation (address, adapter chain in
processing order, auth). A request through any live object - however many derivations, clones and
requests happened in between - is compared with the reference computed from its own spec.
"""
import base64
import copy
import json
import urllib.parse

from hypothesis import strategies as st

from vlib import fakehttp
from vlib.core import Outcome, Part

ID = "C17"
RULE = ("histories of 3-20 operations: create root connection (http/https address, with/without trailing slash or base "
        "path, plain or authenticating), wrap any live connection by HttpConn with 0-2 adapters (path prefix with/without "
        "slashes, tagging adapter) given as list / tuple / single / none or by BAuthConn / ClientAuthConn / TokenAuthConn "
        "(at most one auth layer per chain), add_adapter() on any live connection, build MCallerHttp subclass instances on a connection or an address, clone() "
        "them with None / one adapter / list / tuple, issue get/post/put/delete/patch through any live connection or a "
        "caller method with params needing url-encoding, data None/str/bytes/structured, caller headers, raw_response, "
        "empty or JSON response bodies. Non-trivial = a request through a chain of depth >=2 containing an auth layer, or a "
        "request through an object after something was derived/cloned from it; distinct by history hash."
        " Also: a response processor that maps an empty answer to None (return value compared with a fold of the chain); str / bytes subclass and str-mixin enum bodies.")
ASSUMPTIONS = [
    "path joints: prefix + path with one '/' dropped when the prefix ends and the path starts with '/' (adapter's documented behaviour)",
    "caller headers never contain Authorization when the chain authenticates; never two auth layers (package asserts on both)",
    "header names are compared case-insensitively (urllib capitalises them)",
    "addresses have at most one trailing slash",
    "params are dictionaries ('params: dictionary of request parameters'); sequences of (name, value) pairs are not generated",
]

ADDRS = ["http://h.invalid", "http://h.invalid/", "https://h.invalid:8443", "https://h.invalid/base", "HTTPS://H.invalid/b/"]
PREFIXES = ["/api", "/api/", "api/", "v1", "/v2/x/", ""]


def get_classes():
    import ak.conn_http as H
    import ak.mcaller_http as MH
    cache = getattr(get_classes, "_c", None)
    if cache is not None and cache[0] is H:
        return cache[1]

    fakehttp.speedup_ssl()

    class TagAdapter(H.RequestAdapter):
        def __init__(self, tag, log):
            self.tag = tag
            self.log = log

        def process_req_args(self, req_args):
            self.log.append(("req", self.tag))
            cur = req_args.headers.get("X-Tags")
            req_args.headers["X-Tags"] = (cur + "," if cur else "") + self.tag
            if self.tag.startswith("A"):
                # an adapter may change any of the request arguments: this one sends the request to a replica
                req_args.address = "http://replica-%s.invalid" % self.tag.lower()

        def process_response(self, return_value):
            self.log.append(("resp", self.tag))
            if self.tag.startswith("U") and return_value in ({}, [], ""):
                return None          # a processor whose result for an empty answer is None ("no data")
            return ["T", self.tag, return_value]

        def mk_descr(self):
            return "tag " + self.tag

    class CallerA(MH.MCallerHttp):
        _HTTP_PREFIX_MAP = {"compA": "/a/pre", "compE": ""}

        @MH.method_http(None, "compA")
        def m_a(self, path, **kw):
            return self.get_conn().post(path, **kw)

        @MH.method_http(None)
        def m_plain(self, path, **kw):
            return self.get_conn().get(path, **kw)

        @MH.method_http("basic", ["compE", "compX"])
        def m_e(self, path, **kw):
            return self.get_conn().put(path, **kw)

        # the same two methods written with a shared helper between the wrapper and get_conn()
        def _conn(self):
            return self.get_conn()

        @MH.method_http(None, "compA")
        def h_a(self, path, **kw):
            return self._conn().post(path, **kw)

        @MH.method_http(None)
        def h_plain(self, path, **kw):
            return self._conn().get(path, **kw)

    class CallerB(CallerA):
        _HTTP_PREFIX_MAP = {"compA": "b/", "compX": "/x"}

        @MH.method_http(["token", None], "compX")
        def m_x(self, path, **kw):
            return self.get_conn().delete(path, **kw)

    out = {"H": H, "MH": MH, "TagAdapter": TagAdapter, "callers": [CallerA, CallerB]}
    get_classes._c = (H, out)
    return out


CALLER_METHODS = [
    # name, http method, prefix by class index
    ("m_a", "POST", ["/a/pre", "b/"]),
    ("m_plain", "GET", [None, None]),
    ("m_e", "PUT", ["", "/x"]),       # CallerA: compE -> '' ; CallerB: compX -> '/x' (compE absent)
    ("m_x", "DELETE", [None, "/x"]),
    ("h_a", "POST", ["/a/pre", "b/"]),
    ("h_plain", "GET", [None, None]),
]


class World:
    def __init__(self):
        self.K = get_classes()
        self.log = []
        self.conns = []    # dict(obj, root, chain, address, derived_from_count)
        self.callers = []  # dict(obj, cls, base: conn spec dict)
        self.roots = []    # dict(opener, ids)
        self.f = []
        self.classes = set()
        self.nt = False
        self.last_list = None   # (list object, adapter specs): the adapters list the caller passed last

    def mk_adapter(self, spec):
        H = self.K["H"]
        if spec["k"] == "prefix":
            return H.RequestAdapterAddPathPrefix(spec["p"])
        return self.K["TagAdapter"](spec["tag"], self.log)


AUTH_KINDS = ("bauth", "client", "token")


def has_auth(chain):
    return any(a["k"] in ("bauth", "client", "token") for a in chain)


def new_root(w, address, layer):
    H = w.K["H"]
    obj, own = build_layer(w, address, layer)
    op = fakehttp.install(obj)
    w.roots.append({"opener": op, "ids": []})
    addr = address[:-1] if address.endswith("/") else address
    spec = {"obj": obj, "root": len(w.roots) - 1, "chain": own, "address": addr, "derived": 0}
    w.conns.append(spec)
    return spec


def build_layer(w, conn_data, layer):
    """-> (object, own adapter specs in processing order)"""
    H = w.K["H"]
    t = layer["t"]
    if t == "http":
        ads = layer.get("ad", [])
        objs = [w.mk_adapter(a) for a in ads]
        form = layer.get("form", "list")
        if form == "same_list":
            # the caller passes the very list object it passed for an earlier derivation
            if w.last_list is None or any(a["k"] in AUTH_KINDS for a in w.last_list[1]):
                form = "list"
            else:
                objs, ads = w.last_list
                w.classes.add("adapters_list_object_reused")
                return H.HttpConn(conn_data, adapters=objs), list(ads)
        if form == "none" or (form == "single" and len(objs) != 1):
            if not objs:
                return H.HttpConn(conn_data), []
            form = "list"
        if form == "single":
            return H.HttpConn(conn_data, adapters=objs[0]), list(ads)
        if form == "tuple":
            # own_adapters + parent list: a tuple cannot be concatenated with a list -> documented type is list
            return H.HttpConn(conn_data, adapters=list(objs)), list(ads)
        w.last_list = (objs, list(ads))
        return H.HttpConn(conn_data, adapters=objs), list(ads)
    if t == "bauth":
        return H.BAuthConn(conn_data, layer["login"], layer["pw"]), [{"k": "bauth", "login": layer["login"], "pw": layer["pw"]}]
    if t == "client":
        return (H.ClientAuthConn(conn_data, layer["name"], layer["id"], layer["secret"]),
                [{"k": "client", "id": layer["id"], "secret": layer["secret"]}])
    return H.TokenAuthConn(conn_data, layer["token"]), [{"k": "token", "token": layer["token"]}]


def join_path(prefix, path):
    if path and path.startswith("/") and prefix.endswith("/"):
        path = path[1:]
    return prefix + path


def expected_request(spec_chain, address, method, a):
    path = a["path"]
    tags = []
    auth = None
    for ad in spec_chain:
        if ad["k"] == "prefix":
            path = join_path(ad["p"], path)
        elif ad["k"] == "tag":
            tags.append(ad["tag"])
            if ad["tag"].startswith("A"):
                address = "http://replica-%s.invalid" % ad["tag"].lower()     # this adapter re-routes the request
        else:
            auth = ad
    if a.get("params"):
        path += "?" + urllib.parse.urlencode(a["params"])
    if not path.startswith("/"):
        path = "/" + path
    return address + path, tags, auth


class _StrSub(str):
    """a text body of a str subclass (an xml / sql text type, a str-mixin enum member ...): still a text"""


class _BytesSub(bytes):
    pass


class _StrEnum(str, __import__("enum").Enum):
    PING = "ping \u00e9"
    EMPTY = ""


def decode_data(d):
    if d is None:
        return None
    if "ss" in d:
        return _StrSub(d["ss"])
    if "bs" in d:
        return _BytesSub(d["bs"].encode("utf-8"))
    if "se" in d:
        return list(_StrEnum)[d["se"] % 2]
    if "s" in d:
        return d["s"]
    if "b" in d:
        return d["b"].encode("utf-8")
    return copy.deepcopy(d["j"])


def do_request(w, spec_chain, address, root_idx, fn, method, a, label):
    """fn(path, **kw) issues the request; checks everything about it"""
    root = w.roots[root_idx]
    op = root["opener"]
    body = a.get("body")
    op.next_body = b"" if body is None else json.dumps(body).encode()
    headers = copy.deepcopy(a.get("headers"))
    params = copy.deepcopy(a.get("params"))
    data = decode_data(a.get("data"))
    h0, p0, d0 = copy.deepcopy(headers), copy.deepcopy(params), copy.deepcopy(data)
    kw = {}
    if params is not None:
        kw["params"] = params
    if data is not None:
        kw["data"] = data
    if headers is not None:
        kw["headers"] = headers
    if a.get("raw"):
        kw["raw_response"] = True
    before = len(op.requests)
    del w.log[:]
    others_before = [len(r["opener"].requests) for r in w.roots]
    if a.get("fail"):
        op.fail_next = a["fail"]
    try:
        ret = fn(a["path"], **kw)
    except Exception as e:   # noqa
        if a.get("fail"):
            # the server (or the transport) failed: exactly one request went out, with every adapter applied once
            w.classes.add("request_that_fails_in_transport")
            op.fail_next = None
            n = len(op.requests) - before
            url, tags, auth = expected_request(spec_chain, address, method, a)
            if n != 1:
                w.f.append(("failed_request_sent_%d_times" % n, f"{label}: urls {[r.get_full_url() for r in op.requests[before:]]!r}"))
            elif op.requests[-1].get_full_url() != url:
                w.f.append(("wrong_url", f"{label}: {op.requests[-1].get_full_url()!r} expected {url!r} (failing request)"))
            elif [t for k, t in w.log if k == "req"] != tags:
                w.f.append(("adapters_not_applied_exactly_once_in_order", f"{label}: failing request, order "
                            f"{[t for k, t in w.log if k == 'req']}, expected {tags}"))
            for r_ in op.requests[before:]:
                rid = {k.lower(): v for k, v in r_.header_items()}.get("x-request-id")
                if (h0 or {}).get("X-Request-ID") is None and isinstance(rid, str) and len(rid.split("-")) == 5:
                    root["ids"].append(rid)
            if not isinstance(e, (OSError,)):
                w.f.append(("failing_request_raises_%s" % type(e).__name__, f"{label}: {e}"))
            return
        import traceback
        where = traceback.extract_tb(e.__traceback__)[-1].name
        w.f.append(("request_raises_%s_in_%s" % (type(e).__name__, where), f"{label}: {e}"))
        return
    op.fail_next = None
    if (headers, params, data) != (h0, p0, d0):
        w.f.append(("caller_objects_modified", f"{label}: headers/params/data changed to {headers!r} {params!r} {data!r}"))
    for i, r in enumerate(w.roots):
        n = len(r["opener"].requests) - others_before[i]
        if n != (1 if i == root_idx else 0):
            w.f.append(("request_sent_through_wrong_or_several_connections", f"{label}: root {i} got {n} requests"))
            return
    req = op.requests[-1]
    url, tags, auth = expected_request(spec_chain, address, method, a)
    if req.get_full_url() != url:
        w.f.append(("wrong_url", f"{label}: {req.get_full_url()!r} expected {url!r}"))
    if req.get_method() != method:
        w.f.append(("wrong_method", f"{label}: {req.get_method()} expected {method}"))
    got_h = {k.lower(): v for k, v in req.header_items()}
    exp_h = {k.lower(): v for k, v in (h0 or {}).items()}
    # body
    if data is None:
        if req.data is not None:
            w.f.append(("body_sent_without_data", f"{label}: {req.data!r}"))
    elif isinstance(data, bytes):
        if req.data != data:
            w.f.append(("wrong_body_bytes", f"{label}: {req.data!r}"))
    elif isinstance(data, str):
        if req.data != data.encode("utf-8"):
            w.f.append(("wrong_body_str", f"{label}: {req.data!r}"))
    else:
        try:
            ok = json.loads(req.data.decode("utf-8")) == data
        except Exception:   # noqa
            ok = False
        if not ok:
            w.f.append(("wrong_body_json", f"{label}: {req.data!r}"))
        if "content-type" not in exp_h:
            exp_h["content-type"] = "application/json"
    # authorization
    if auth is not None:
        val = got_h.get("authorization")
        if val is None:
            w.f.append(("authorization_header_missing", label))
        else:
            sval = val.decode() if isinstance(val, bytes) else val
            if auth["k"] == "token":
                good = sval == "Bearer " + auth["token"]
            else:
                cred = (auth["login"], auth["pw"]) if auth["k"] == "bauth" else (auth["id"], auth["secret"])
                try:
                    good = sval.startswith("Basic ") and base64.b64decode(sval[6:]).decode("utf-8") == "%s:%s" % cred
                except Exception:   # noqa
                    good = False
            if not good:
                w.f.append(("authorization_header_wrong", f"{label}: {val!r}"))
        exp_h["authorization"] = val
    if tags:
        exp_h["x-tags"] = ",".join(tags)
    # request id
    supplied = (h0 or {}).get("X-Request-ID")
    rid = got_h.get("x-request-id")
    if supplied is not None:
        if rid != supplied:
            w.f.append(("caller_request_id_changed", f"{label}: {rid!r}"))
    else:
        if not isinstance(rid, str) or len(rid.split("-")) != 5:
            w.f.append(("request_id_missing_or_malformed", f"{label}: {rid!r}"))
        else:
            root["ids"].append(rid)
            nums = [int(x.split("-")[-1]) for x in root["ids"]]
            if nums != list(range(len(nums))):
                w.f.append(("request_id_sequence_broken", f"{label}: {root['ids']!r}"))
        exp_h["x-request-id"] = rid
    for k in set(got_h) | set(exp_h):
        if got_h.get(k) != exp_h.get(k):
            w.f.append(("wrong_headers", f"{label}: header {k!r} is {got_h.get(k)!r}, expected {exp_h.get(k)!r}"))
            break
    # adapters exactly once, in order
    req_log = [t for k, t in w.log if k == "req"]
    resp_log = [t for k, t in w.log if k == "resp"]
    if req_log != tags:
        w.f.append(("adapters_not_applied_exactly_once_in_order", f"{label}: request order {req_log}, expected {tags}"))
    if resp_log != tags[::-1]:
        w.f.append(("response_processors_not_in_reverse_order", f"{label}: {resp_log}, expected {tags[::-1]}"))
    # return value
    inner = ret
    seen = []
    while isinstance(inner, list) and len(inner) == 3 and inner[0] == "T":
        seen.append(inner[1])
        inner = inner[2]
    # model: the processors innermost first; a 'U' processor turns an empty answer into None
    if not a.get("raw"):
        val = "" if body is None else body
        for t in tags[::-1]:
            if t.startswith("U") and val in ({}, [], ""):
                val = None
                w.classes.add("processor_result_is_None")
            else:
                val = ["T", t, val]
        exp_seen, x = [], val
        while isinstance(x, list) and len(x) == 3 and x[0] == "T":
            exp_seen.append(x[1])
            x = x[2]
        if seen != exp_seen:
            w.f.append(("return_value_not_processed_in_reverse_order", f"{label}: wrappers {seen}, expected {exp_seen} (chain {tags})"))
        elif ret != val:
            w.f.append(("wrong_return_value", f"{label}: {ret!r} expected {val!r}"))
        return
    if seen != tags:
        w.f.append(("return_value_not_processed_in_reverse_order", f"{label}: wrappers {seen}, expected {tags}"))
    if a.get("raw"):
        if not isinstance(inner, fakehttp.FakeResponse):
            w.f.append(("raw_response_not_returned", f"{label}: {inner!r}"))
    else:
        want = "" if body is None else body
        if inner != want:
            w.f.append(("wrong_return_value", f"{label}: {inner!r} expected {want!r}"))


def run_history(case):
    w = World()
    H = w.K["H"]
    nreq = 0
    for step, op in enumerate(case["ops"]):
        if w.f:
            break
        kind = op[0]
        try:
            if kind == "root":
                new_root(w, op[1], op[2])
            elif kind == "wrap":
                if not w.conns:
                    continue
                parent = w.conns[op[1] % len(w.conns)]
                layer = op[2]
                if layer["t"] != "http" and has_auth(parent["chain"]):
                    layer = {"t": "http", "ad": [], "form": "none"}
                obj, own = build_layer(w, parent["obj"], layer)
                parent["derived"] += 1
                w.conns.append({"obj": obj, "root": parent["root"], "chain": own + parent["chain"],
                                "address": parent["address"], "derived": 0})
                w.classes.add("wrap_" + layer["t"])
            elif kind == "add_adapter":
                if not w.conns:
                    continue
                c = w.conns[op[1] % len(w.conns)]
                ad = op[2]
                if c.get("caller_base"):
                    # a method caller built on an HttpConn uses that very object (not a derived one) and snapshots
                    # it lazily per component prefix: what add_adapter means for it is not specified - not generated
                    continue
                c["obj"].add_adapter(w.mk_adapter(ad))
                # appended to this connection's own chain only: processed after the existing adapters; connections
                # derived earlier keep their chains, connections derived later include it
                c["chain"] = c["chain"] + [ad]
                w.classes.add("add_adapter")
                if c["derived"] or any(o is not c and o["root"] == c["root"] for o in w.conns):
                    w.classes.add("add_adapter_on_shared_implementation")
            elif kind == "caller":
                cls_i = op[2] % 2
                cls = w.K["callers"][cls_i]
                if op[3] == "by_address" or not w.conns:
                    address = ADDRS[op[1] % len(ADDRS)]
                    obj = cls(address)
                    opn = fakehttp.install(obj.http_conn)
                    w.roots.append({"opener": opn, "ids": []})
                    base = {"root": len(w.roots) - 1, "chain": [], "address": address[:-1] if address.endswith("/") else address,
                            "derived": 0}
                else:
                    parent = w.conns[op[1] % len(w.conns)]
                    obj = cls(parent["obj"])
                    parent["derived"] += 1
                    parent["caller_base"] = True
                    base = {"root": parent["root"], "chain": list(parent["chain"]), "address": parent["address"], "derived": 0}
                w.callers.append({"obj": obj, "cls": cls_i, "base": base})
                w.classes.add("caller_created")
            elif kind == "clone":
                if not w.callers:
                    continue
                src = w.callers[op[1] % len(w.callers)]
                ads = op[2]
                form = op[3]
                if has_auth(src["base"]["chain"]):
                    ads = [a for a in ads if a["k"] in ("prefix", "tag")]
                objs = [w.mk_adapter(a) for a in ads]
                if form == "none":
                    objs, ads = None, []
                    new = src["obj"].clone()
                elif form == "single" and len(objs) == 1:
                    new = src["obj"].clone(objs[0])
                elif form == "tuple":
                    new = src["obj"].clone(list(objs))
                    form = "list"
                elif form == "same_list" and w.last_list is not None and not any(
                        a["k"] in AUTH_KINDS for a in w.last_list[1]):
                    objs, ads = w.last_list
                    ads = list(ads)
                    w.classes.add("adapters_list_object_reused")
                    new = src["obj"].clone(objs)
                    form = "list"
                else:
                    form = "list"
                    new = src["obj"].clone(objs)
                    w.last_list = (objs, list(ads))
                src["base"]["derived"] += 1
                w.callers.append({"obj": new, "cls": src["cls"], "base": {
                    "root": src["base"]["root"], "chain": list(ads) + src["base"]["chain"],
                    "address": src["base"]["address"], "derived": 0}})
                w.classes.add("clone_" + form + ("_%d" % min(len(ads), 2)))
            elif kind == "req":
                if not w.conns:
                    continue
                c = w.conns[op[1] % len(w.conns)]
                a = dict(op[2])
                if has_auth(c["chain"]) and a.get("headers"):
                    a["headers"] = {k: v for k, v in a["headers"].items() if k.lower() != "authorization"}
                method = a["method"]
                fn = getattr(c["obj"], method.lower())
                if len(c["chain"]) >= 2 and has_auth(c["chain"]):
                    w.nt = True
                    w.classes.add("request_deep_auth_chain")
                if c["derived"]:
                    w.nt = True
                    w.classes.add("request_through_ancestor_after_derivation")
                do_request(w, c["chain"], c["address"], c["root"], fn, method, a, f"step {step} {op!r}")
                nreq += 1
            elif kind == "call":
                if not w.callers:
                    continue
                cl = w.callers[op[1] % len(w.callers)]
                mname, method, prefixes = CALLER_METHODS[op[2] % len(CALLER_METHODS)]
                if mname == "m_x" and cl["cls"] == 0:
                    mname, method, prefixes = CALLER_METHODS[1]
                pre = prefixes[cl["cls"]]
                chain = ([{"k": "prefix", "p": pre}] if pre else []) + cl["base"]["chain"]
                a = dict(op[3])
                if has_auth(chain) and a.get("headers"):
                    a["headers"] = {k: v for k, v in a["headers"].items() if k.lower() != "authorization"}
                if cl["base"]["derived"]:
                    w.nt = True
                    w.classes.add("call_through_caller_after_clone")
                if len(chain) >= 2 and has_auth(chain):
                    w.nt = True
                do_request(w, chain, cl["base"]["address"], cl["base"]["root"], getattr(cl["obj"], mname), method, a,
                           f"step {step} {op!r}")
                w.classes.add("caller_method_" + mname)
                nreq += 1
        except Exception as e:   # noqa
            import traceback
            where = traceback.extract_tb(e.__traceback__)[-1].name
            w.f.append(("operation_%s_raises_%s_in_%s" % (kind, type(e).__name__, where), f"step {step} {op!r}: {e}"))
    return w, nreq


def evaluate(case):
    w, nreq = run_history(case)
    return Outcome(w.nt, sorted(w.classes), w.f[:5], key=case["ops"], evals=nreq)


# ---------------------------------------------------------------------------

def st_adapter():
    return st.one_of(
        st.sampled_from(PREFIXES).map(lambda p: {"k": "prefix", "p": p}),
        st.sampled_from(["T1", "T2", "T3", "T4", "U5", "A6"]).map(lambda t: {"k": "tag", "tag": t}))


def st_layer():
    cred = st.text("abcXYZ:é @", min_size=0, max_size=6)
    return st.one_of(
        st.builds(lambda ad, form: {"t": "http", "ad": ad, "form": form},
                  st.lists(st_adapter(), max_size=2), st.sampled_from(["list", "tuple", "single", "none", "same_list"])),
        st.builds(lambda ad, form: {"t": "http", "ad": ad, "form": form},
                  st.lists(st_adapter(), max_size=2), st.sampled_from(["list", "tuple", "single", "none", "same_list"])),
        st.builds(lambda a, b: {"t": "bauth", "login": a, "pw": b}, cred, cred),
        st.builds(lambda a, b, c: {"t": "client", "name": a, "id": b, "secret": c}, cred, cred, cred),
        st.builds(lambda a: {"t": "token", "token": a}, st.text("abc.-_XYZ09", min_size=1, max_size=10)))


def st_reqargs(with_method=True):
    pval = st.text("ab &=?/é+%", max_size=5) | st.integers(-5, 99)
    jval = st.sampled_from([[], {}, [1, "a\u00e9"], {"a": None}, {"a": {"b": [True, 2]}}, [[], {}], 0, False,
                            {"q\"": "x y"}])
    hdr = st.dictionaries(st.sampled_from(["Content-Type", "X-Request-ID", "Accept", "X-Custom", "Authorization"]),
                          st.text("abc/=-09", min_size=1, max_size=8), max_size=3)
    return st.fixed_dictionaries({
        "method": st.sampled_from(["GET", "POST", "PUT", "DELETE", "PATCH"]),
        "path": st.sampled_from(["", "/", "x", "/x", "x/y/", "/x/y?z", "a b", "//etc/hosts", "//", "///x", "/x//y"]),
        "params": st.none() | st.dictionaries(st.text("pq &", min_size=1, max_size=3), pval, max_size=3),
        "data": st.one_of(st.none(), st.text("dé{}\"", max_size=6).map(lambda s: {"s": s}),
                          st.text("bé", max_size=5).map(lambda s: {"b": s}),
                          st.text("sé\"", max_size=5).map(lambda s: {"ss": s}), st.text("bé", max_size=4).map(lambda s: {"bs": s}),
                          st.integers(0, 1).map(lambda i: {"se": i}),
                          jval.filter(lambda j: not isinstance(j, str) and j is not None).map(lambda j: {"j": j})),
        "headers": st.none() | hdr,
        "raw": st.sampled_from([False, False, True]),
        "fail": st.sampled_from([None, None, None, None, None, 500, 502, 503, 504, 404, "url"]),
        "body": st.none() | st.dictionaries(st.text("k", min_size=1, max_size=2), st.integers(0, 5), max_size=2) | st.lists(st.integers(0, 3), max_size=2),
    })


def st_ops():
    idx = st.integers(0, 30)
    op = st.one_of(
        st.tuples(st.just("root"), st.sampled_from(ADDRS), st_layer()),
        st.tuples(st.just("wrap"), idx, st_layer()),
        st.tuples(st.just("wrap"), idx, st_layer()),
        st.tuples(st.just("add_adapter"), idx, st_adapter()),
        st.tuples(st.just("caller"), idx, st.integers(0, 1), st.sampled_from(["by_conn", "by_conn", "by_address"])),
        st.tuples(st.just("clone"), idx, st.lists(st_adapter(), max_size=2), st.sampled_from(["none", "single", "list", "tuple", "same_list"])),
        st.tuples(st.just("req"), idx, st_reqargs()),
        st.tuples(st.just("req"), idx, st_reqargs()),
        st.tuples(st.just("req"), idx, st_reqargs()),
        st.tuples(st.just("call"), idx, st.integers(0, 5), st_reqargs()),
        st.tuples(st.just("call"), idx, st.integers(0, 5), st_reqargs()),
    )

    def tolist(x):
        return [tolist(i) for i in x] if isinstance(x, (tuple, list)) else x
    first = st.tuples(st.just("root"), st.sampled_from(ADDRS), st_layer())
    return st.builds(lambda a, rest: {"ops": tolist([a] + rest)}, first, st.lists(op, min_size=6, max_size=22))


def regression_cases():
    # F10: clone with a list of two adapters, then a request through the clone
    ra = {"method": "GET", "path": "/x", "params": None, "data": None, "headers": None, "raw": False, "body": None}
    yield {"ops": [["root", "http://h.invalid", {"t": "http", "ad": [], "form": "none"}],
                   ["caller", 0, 0, "by_conn"],
                   ["clone", 0, [{"k": "tag", "tag": "T1"}, {"k": "prefix", "p": "/api"}], "list"],
                   ["call", 1, 1, ra], ["call", 0, 1, ra]]}
    yield {"ops": [["root", "http://h.invalid", {"t": "http", "ad": [], "form": "none"}],
                   ["caller", 0, 0, "by_conn"],
                   ["clone", 0, [{"k": "tag", "tag": "T1"}], "single"],
                   ["call", 1, 0, ra]]}


def parts(tier):
    k = 1 if tier == "quick" else 40
    return [
        Part("regressions", evaluate, enumerate=regression_cases, exhaustive=True),
        Part("histories", evaluate, strategy=st_ops, examples=6000 * k),
    ]


TECHNIQUE = "model-based stateful testing (Hypothesis-generated histories of derivations, clones and requests) against a reference request function computed from each object's creation-time spec; fake urllib opener records the real requests"
LEVEL_TEXT = ("Exploration: ~4k generated histories per quick run (160k thorough) with ~6 requests each; every request is compared "
              "field by field (url, method, headers incl. decoded Authorization, body, adapter order, response processing order, "
              "return value, caller objects untouched) with the reference for the issuing object's own spec, so interference "
              "between derived objects shows up as a mismatch on the older object.")
LEVEL_NOTE = "Trusted: the reference request function (40 lines), vlib/fakehttp.py, urllib.parse.urlencode, Hypothesis."
