"""C09 - emitted escape sequences are well-formed, self-contained and strippable.

Oracle: vlib.sgr (independent SGR interpreter / terminal model).
"""
import itertools

from hypothesis import strategies as st

from vlib import sgr
from vlib.core import Outcome, Part

ID = "C09"
RULE = ("colour specs: 8 names, every int 0..255, every (r,g,b) in 0..5^3, g0..g23, None - each "
        "enumerated completely as fg and as bg (part axis_enum, exhaustive) with all 32 effect subsets on a "
        "colour sample; Hypothesis draws fg x bg x effects(True/False/None) x no_color x printable texts "
        "(no ESC) for 1-5 chunks assembled into a CHText; invalid specs (out-of-range ints, malformed tuples, "
        "g24/g-1/gx, unknown names, floats) must raise ValueError; part render_extend_history renders a text, extends it in "
        "place with same- and other-coloured chunks and renders it again. Non-trivial = a chunk that uses a "
        "256-colour form, or >=2 effects, or a background; distinct by the list of chunk specs."
        " Also: colour codes given as int-like objects (IntEnum member, int subclass with its own text form, bool: the code it equals or ValueError).")
ASSUMPTIONS = [
    "basic colour k (30+k / 40+k) and 256-colour index k<8 are identified as the same colour",
    "bool and list colour specs are not documented inputs and are not generated",
    "texts contain no ESC (U+001B) character, as the quantifier states",
]

NAMES = ['BLACK', 'RED', 'GREEN', 'YELLOW', 'BLUE', 'MAGENTA', 'CYAN', 'WHITE']
EFFECTS = ["bold", "faint", "underline", "blink", "crossed"]


class _IntSub(int):
    """an int subclass with a text form of its own (what an IntEnum member is on older Pythons): still the code it equals"""

    def __str__(self):
        return "Code(%d)" % int(self)
    __repr__ = __str__


def _spec(j):
    # {"int_like": kind, "v": n}: a colour code given as an object that *is* an int: IntEnum member, int subclass, bool
    if isinstance(j, dict):
        kind, v = j["int_like"], j["v"]
        if kind == "enum":
            import enum
            return enum.IntEnum("Level", {"V": v}).V
        if kind == "sub":
            return _IntSub(v)
        return bool(v)
    return tuple(j) if isinstance(j, list) else j


def _plain(j):
    """the plain value a specification stands for (int-like objects -> their int)"""
    if isinstance(j, dict):
        return int(bool(j["v"])) if j["int_like"] == "bool" else j["v"]
    return tuple(j) if isinstance(j, list) else j


def _mk(cls, c):
    eff = {k: v for k, v in (c.get("eff") or {}).items()}
    return cls(_spec(c.get("fg")), bg_color=_spec(c.get("bg")), no_color=bool(c.get("no_color")), **eff)


def _expected_state(c):
    if c.get("no_color"):
        return sgr.DEFAULT
    eff = frozenset(k for k, v in (c.get("eff") or {}).items() if v)
    return (sgr.color_index(_plain(c.get("fg"))), sgr.color_index(_plain(c.get("bg"))), eff)


def _is_nt(c):
    if c.get("no_color"):
        return False
    def is256(s):
        return s is not None and not (isinstance(s, str) and s in NAMES)
    if isinstance(c.get("fg"), dict) or isinstance(c.get("bg"), dict):
        return True
    neff = sum(1 for v in (c.get("eff") or {}).values() if v)
    return is256(c.get("fg")) or c.get("bg") is not None or neff >= 2


def evaluate(case):
    import ak.color as C
    if "invalid" in case:
        return eval_invalid(case, C)
    if "history" in case:
        return eval_history(case)
    f = []
    chunks = case["chunks"]
    objs = []
    exp_cells = []
    classes = set()
    for idx, c in enumerate(chunks):
        text = c["text"]
        want = _expected_state(c)
        try:
            fmt = _mk(C.ColorFmt, c)
            ch = fmt(text)
            s = str(ch)
        except Exception as e:   # noqa
            if isinstance(e, ValueError) and any(isinstance(c.get(k), dict) and c[k]["int_like"] == "bool" for k in ("fg", "bg")):
                # True / False as a colour code: either the code 1 / 0 it equals, or rejected - nothing else
                classes.add("bool_colour_code_rejected")
                continue
            f.append(("valid_spec_raises_" + type(e).__name__, f"{c!r}: {e}"))
            continue
        if any(isinstance(c.get(k), dict) for k in ("fg", "bg")):
            classes.add("colour_code_given_as_int_like_object")
        objs.append(ch)
        exp_cells.extend((x, want) for x in text)
        try:
            cells, final, nseq = sgr.interpret(s)
        except sgr.Malformed as e:
            f.append(("malformed_sequence", f"{c!r} -> {s!r}: {e}"))
            continue
        if "".join(x[0] for x in cells) != text:
            f.append(("visible_chars_differ", f"{c!r} -> {s!r}"))
        bad = [x for x in cells if x[1] != want]
        if bad:
            which = "fg" if bad[0][1][0] != want[0] else "bg" if bad[0][1][1] != want[1] else "effects"
            f.append(("wrong_%s_shown" % which, f"{c!r} -> {s!r}: shows {bad[0][1]}, requested {want}"))
        if final != sgr.DEFAULT:
            f.append(("not_default_after_chunk", f"{c!r} -> {s!r}: final state {final}"))
        if want == sgr.DEFAULT and sgr.ESC in s:
            f.append(("escape_in_uncolored_output", f"{c!r} -> {s!r}"))
        try:
            st_ = C.CHText.strip_colors(s)
            if st_ != text:
                f.append(("strip_colors_leaves_sequence" if sgr.ESC in st_ else "strip_colors_wrong_text",
                          f"{c!r}: strip_colors({s!r}) = {st_!r}"))
            if ch.plain_text() != text:
                f.append(("plain_text_differs", f"{c!r}"))
        except Exception as e:   # noqa
            f.append(("strip_colors_raises_" + type(e).__name__, f"{c!r}: {e}"))
        try:
            b = _mk(C.ColorBytes, c)(text.encode("utf-8"))
            if b != s.encode("utf-8"):
                f.append(("bytes_formatter_differs", f"{c!r}: {b!r} vs {s.encode('utf-8')!r}"))
        except Exception as e:   # noqa
            f.append(("bytes_formatter_raises_" + type(e).__name__, f"{c!r}: {e}"))
        for k in ("fg", "bg"):
            sp = c.get(k)
            classes.add("%s_%s" % (k, "none" if sp is None else "name" if sp in NAMES else
                                   "gray" if isinstance(sp, str) else "cube" if isinstance(sp, list) else "int"))
        classes.add("effects_%d" % sum(1 for v in (c.get("eff") or {}).values() if v))
        if c.get("no_color"):
            classes.add("no_color")
        if text == "":
            classes.add("empty_text")
    # whole text
    if len(objs) == len(chunks) and len(chunks) > 1:
        classes.add("multi_chunk")
        try:
            x = C.CHText(*objs)
            s = str(x)
            cells, final, _ = sgr.interpret(s)
            got = [(a, b) for a, b, _ in cells]
            if got != exp_cells:
                f.append(("chtext_cells_differ", f"{chunks!r} -> {s!r}"))
            else:
                for i in range(1, len(cells)):
                    if exp_cells[i][1] != exp_cells[i - 1][1] and not cells[i][2]:
                        f.append(("color_bleeds_between_chunks", f"{chunks!r} -> {s!r} at visible char {i}"))
                        break
            if final != sgr.DEFAULT:
                f.append(("not_default_after_text", f"{chunks!r} -> {s!r}"))
            plain = "".join(c["text"] for c in chunks)
            if x.plain_text() != plain:
                f.append(("plain_text_differs", f"{chunks!r}"))
            st_ = C.CHText.strip_colors(s)
            if st_ != plain:
                f.append(("strip_colors_leaves_sequence" if sgr.ESC in st_ else "strip_colors_wrong_text",
                          f"strip_colors({s!r}) = {st_!r}"))
        except sgr.Malformed as e:
            f.append(("malformed_sequence", f"{chunks!r}: {e}"))
        except Exception as e:   # noqa
            f.append(("chtext_raises_" + type(e).__name__, f"{chunks!r}: {e}"))
    key = [[c.get("fg"), c.get("bg"), sorted((c.get("eff") or {}).items()), bool(c.get("no_color"))]
           for c in chunks]
    return Outcome(any(_is_nt(c) for c in chunks), sorted(classes), f, key=key, evals=len(chunks) * 3 + 1)


def eval_history(case):
    """a text is rendered, extended in place, rendered again (and again): every rendering must show exactly
    the characters and colours present at that moment"""
    import ak.color as C
    f = []
    chunks = case["chunks"]
    cuts = sorted(set(min(max(c, 0), len(chunks)) for c in case["history"]))
    x = C.CHText()
    exp = []
    done = 0
    classes = set(["render_extend_history"])
    for cut in cuts + [len(chunks)]:
        for c in chunks[done:cut]:
            try:
                ch = _mk(C.ColorFmt, c)(c["text"])
            except Exception as e:   # noqa
                return Outcome(False, sorted(classes), [("valid_spec_raises_" + type(e).__name__, f"{c!r}: {e}")])
            if exp and c["text"] and exp[-1][1] == _expected_state(c):
                classes.add("extend_merges_into_last_chunk_after_render")
            x += ch
            exp.extend((ch_, _expected_state(c)) for ch_ in c["text"])
        done = cut

        def check_render():
            try:
                s = str(x)
                fs = format(x, "")
                cells, final, _ = sgr.interpret(s)
                if [(a, b) for a, b, _ in cells] != exp:
                    f.append(("stale_or_wrong_rendering_after_in_place_extension", f"{chunks[:done]!r} -> {s!r}"))
                if fs != s:
                    f.append(("format_differs_from_str", f"{fs!r} vs {s!r}"))
                if C.CHText.strip_colors(s) != x.plain_text() or x.plain_text() != "".join(a for a, _ in exp):
                    f.append(("strip_colors_differs_from_plain_text_after_extension", f"{s!r} vs {x.plain_text()!r}"))
                if final != sgr.DEFAULT:
                    f.append(("not_default_after_text", repr(s)))
            except sgr.Malformed as e:
                f.append(("malformed_sequence", str(e)))
        check_render()
        if f:
            break
        if case.get("failing"):
            # an in-place extension that fails half-way, right after a rendering: [a valid chunk, an object whose str()
            # raises]. Whether the valid part stays appended is not specified - but str() and plain_text() must keep
            # telling the same story
            class _Bad:
                def __str__(self):
                    raise RuntimeError("cannot be rendered")
            c = case["failing"][len(exp) % len(case["failing"])]
            before = x.plain_text()
            try:
                x += [_mk(C.ColorFmt, c)(c["text"]), _Bad()]
            except Exception:   # noqa
                pass
            classes.add("failed_in_place_extension")
            after = x.plain_text()
            if after == before + c["text"]:
                exp.extend((ch_, _expected_state(c)) for ch_ in c["text"])
            elif after != before:
                f.append(("failed_extension_corrupts_text", f"{before!r} -> {after!r}"))
                break
            check_render()
            if f:
                break
    key = ["hist", [[c.get("fg"), c.get("bg"), sorted((c.get("eff") or {}).items()), c["text"] != ""] for c in chunks], cuts]
    return Outcome("extend_merges_into_last_chunk_after_render" in classes or any(_is_nt(c) for c in chunks),
                   sorted(classes), f, key=key, evals=len(cuts) + 1)


def eval_invalid(case, C):
    inv = case["invalid"]
    spec = _spec(inv["spec"])
    f = []
    for cls in (C.ColorFmt, C.ColorBytes):
        if inv.get("prime") is not None:
            # history: the valid value that compares equal to the invalid one (3 vs 3.0) was used just before
            pr = _spec(inv["prime"])
            for c2 in (C.ColorFmt, C.ColorBytes):
                c2(pr)
                c2(None, bg_color=pr)
        other = _spec(inv.get("other"))         # a valid value for the other slot of the same request
        try:
            if inv["where"] == "fg":
                cls(spec, bg_color=other, **(inv.get("eff") or {}))
            else:
                cls(other, bg_color=spec, **(inv.get("eff") or {}))
            f.append(("invalid_spec_accepted", f"{cls.__name__} {inv!r}"))
        except ValueError:
            pass
        except Exception as e:   # noqa
            f.append(("invalid_spec_raises_" + type(e).__name__, f"{cls.__name__} {inv!r}: {e}"))
    # a rejected request must leave nothing behind: formatters created right after it are judged like any other
    try:
        for probe_kw, want in (({"color": "GREEN"}, (sgr.color_index("GREEN"), None, frozenset())),
                               ({"color": None, "bold": True}, (None, None, frozenset(["bold"]))),
                               ({"color": "RED", "no_color": True}, sgr.DEFAULT)):
            kw = dict(probe_kw)
            col = kw.pop("color")
            s_ = str(C.ColorFmt(col, **kw)("t"))
            b_ = C.ColorBytes(col, **kw)(b"t")
            cells, final, _n = sgr.interpret(s_)
            if len(cells) != 1 or cells[0][1] != want or final != sgr.DEFAULT or (want == sgr.DEFAULT and sgr.ESC in s_):
                f.append(("formatter_created_after_a_rejected_request_is_wrong", f"after {inv!r}: ColorFmt({probe_kw!r}) -> {s_!r}"))
                break
            if b_ != s_.encode():
                f.append(("bytes_formatter_created_after_a_rejected_request_differs", f"after {inv!r}: {b_!r} vs {s_!r}"))
                break
    except sgr.Malformed as e:
        f.append(("formatter_created_after_a_rejected_request_is_malformed", f"after {inv!r}: {e}"))
    return Outcome(True, ["invalid_spec"] + (["invalid_spec_after_equal_valid_one"] if inv.get("prime") is not None else [])
                   + (["invalid_spec_next_to_valid_other_slot"] if inv.get("other") is not None else []), f,
                   key=["inv", inv["spec"], inv["where"], inv.get("prime")], evals=2)


def all_specs():
    out = [None] + NAMES + list(range(256))
    out += [list(t) for t in itertools.product(range(6), repeat=3)]
    out += ["g%d" % i for i in range(24)]
    return out


INVALID = [-1, 256, 257, 1000, -255, 10**9, [0, 0], [0, 0, 0, 0], [6, 0, 0], [0, 6, 0], [0, 0, 6],
           [-1, 0, 0], [0, 0, -1], [], "g24", "g25", "g-1", "gx", "g", "g1.5", "red", "Red", "ORANGE",
           "", "-", "GRAY", "G1", "1", 1.5, 0.0, 255.5, "BLACK ",
           # texts that are the str() form of a valid value
           "None", "196", "7", "(4, 1, 1)", "[1, 2, 3]", "255", "0", "True"]


def axis_enum():
    for sp in all_specs():
        yield {"chunks": [{"fg": sp, "bg": None, "eff": {}, "text": "aZ"}]}
        yield {"chunks": [{"fg": None, "bg": sp, "eff": {}, "text": "aZ"}]}
    sample = [None, "RED", 7, 8, 200, [1, 2, 3], "g0", "g23"]
    for bits in itertools.product([None, True], repeat=5):
        eff = {k: v for k, v in zip(EFFECTS, bits) if v is not None}
        for sp in sample:
            yield {"chunks": [{"fg": sp, "bg": None, "eff": eff, "text": "x y"}]}
            yield {"chunks": [{"fg": None, "bg": sp, "eff": eff, "text": "x y"},
                              {"fg": sp, "bg": "BLUE", "eff": {}, "text": "q"}]}
    for sp in sample:
        yield {"chunks": [{"fg": sp, "bg": sp, "eff": {"bold": True}, "no_color": True, "text": "plain"}]}
    # long texts: hundreds of chunks (neighbours differ in colour, so nothing is merged)
    for n in (129, 300, 1000):
        cyc = [{"fg": "RED", "bg": None, "eff": {}}, {"fg": 200, "bg": None, "eff": {"bold": True}},
               {"fg": None, "bg": "g5", "eff": {}}, {"fg": None, "bg": None, "eff": {}}]
        yield {"chunks": [dict(cyc[i % 4], text="w%d" % i) for i in range(n)]}
    for kind in ("enum", "sub", "bool"):
        for v in (0, 1, 7, 196, 255):
            yield {"chunks": [{"fg": {"int_like": kind, "v": v}, "bg": None, "eff": {}, "text": "ab"}]}
            yield {"chunks": [{"fg": "RED", "bg": {"int_like": kind, "v": v}, "eff": {"bold": True}, "text": "ab"}]}
    for sp in INVALID:
        yield {"invalid": {"spec": sp, "where": "fg"}}
        yield {"invalid": {"spec": sp, "where": "bg"}}
        yield {"invalid": {"spec": sp, "where": "bg", "other": "RED"}}
        yield {"invalid": {"spec": sp, "where": "fg", "other": 200, "eff": {"underline": True}}}
    for valid, inval in [(3, 3.0), (200, 200.0), (0, 0.0), (255, 255.0), ([1, 2, 3], [1.0, 2, 3]), ([5, 5, 5], [5, 5.0, 5]),
                         ([0, 0, 0], [0.0, 0.0, 0.0]), (7, 7.0),
                         # ... and the text form of a valid value right after that value was used
                         (196, "196"), (7, "7"), ([4, 1, 1], "(4, 1, 1)"), (None, "None"), (0, "0"), ("RED", "red")]:
        for w in ("fg", "bg"):
            yield {"invalid": {"spec": inval, "where": w, "prime": valid}}


def st_spec():
    return st.one_of(
        st.none(), st.sampled_from(NAMES), st.integers(0, 255), st.integers(0, 255),
        st.tuples(st.sampled_from(["enum", "sub", "bool"]), st.integers(0, 255)).map(lambda t: {"int_like": t[0], "v": t[1]}),
        st.lists(st.integers(0, 5), min_size=3, max_size=3),
        st.integers(0, 23).map(lambda i: "g%d" % i))


def st_text():
    printable = st.characters(blacklist_categories=["Cs", "Cc"])
    return st.one_of(st.text(printable, max_size=12),
                     st.text("ab[;:m0123456789 \n", max_size=10))


def st_chunk():
    eff = st.fixed_dictionaries({}, optional={k: st.sampled_from([True, False, None]) for k in EFFECTS})
    return st.fixed_dictionaries(
        {"fg": st_spec(), "bg": st_spec(), "eff": eff, "text": st_text()},
        optional={"no_color": st.sampled_from([False, False, False, True])})


def st_case():
    return st.lists(st_chunk(), min_size=1, max_size=5).map(lambda cs: {"chunks": cs})


def st_history():
    few = st.sampled_from([None, "RED", "RED", 200, "g3"])
    ch = st.fixed_dictionaries({"fg": few, "bg": st.sampled_from([None, None, "BLUE"]),
                                "eff": st.sampled_from([{}, {}, {"bold": True}]), "text": st.text("ab ", max_size=3)})
    return st.builds(lambda cs, h, fl: {"chunks": cs, "history": h, "failing": fl}, st.lists(ch, min_size=2, max_size=7),
                     st.lists(st.integers(0, 7), min_size=1, max_size=4), st.none() | st.lists(ch, min_size=1, max_size=2))


def st_invalid():
    bad = st.one_of(
        st.integers(-10**6, -1), st.integers(256, 10**6),
        st.lists(st.integers(-3, 9), min_size=0, max_size=5).filter(
            lambda t: len(t) != 3 or any(c < 0 or c > 5 for c in t)),
        st.integers(24, 400).map(lambda i: "g%d" % i),
        st.integers(-50, -1).map(lambda i: "g%d" % i),
        st.text("abcdefgxyzRED", min_size=1, max_size=6).filter(
            lambda s: s not in NAMES and not (s[0] == "g" and s[1:].isdigit())),
        st.floats(allow_nan=False, allow_infinity=False))
    twins = st.one_of(
        st.integers(0, 255).map(lambda i: (i, float(i))),
        st.tuples(st.integers(0, 5), st.integers(0, 5), st.integers(0, 5), st.integers(0, 2)).map(
            lambda t: ([t[0], t[1], t[2]], [float(c) if k == t[3] else c for k, c in enumerate(t[:3])])))
    valid = st.sampled_from([None, "RED", 7, 200, [1, 2, 3], "g5"])
    return st.one_of(
        st.builds(lambda s, w: {"invalid": {"spec": s, "where": w}}, bad, st.sampled_from(["fg", "bg"])),
        st.builds(lambda s, w, o, e: {"invalid": {"spec": s, "where": w, "other": o, "eff": e}}, bad, st.sampled_from(["fg", "bg"]),
                  valid, st.dictionaries(st.sampled_from(EFFECTS), st.booleans(), max_size=2)),
        st.builds(lambda t, w: {"invalid": {"spec": t[1], "where": w, "prime": t[0]}}, twins, st.sampled_from(["fg", "bg"])))


def parts(tier):
    k = 1 if tier == "quick" else 50
    return [
        Part("axis_enum", evaluate, enumerate=axis_enum, exhaustive=True,
             note="every colour spec as fg and as bg; all 32 effect subsets x 8 sample colours; fixed invalid pool"),
        Part("pairs", evaluate, strategy=st_case, examples=16000 * k),
        Part("invalid", evaluate, strategy=st_invalid, examples=4000 * k),
        Part("render_extend_history", evaluate, strategy=st_history, examples=6000 * k),
    ]


TECHNIQUE = "exhaustive enumeration of the finite colour-spec axes + Hypothesis over fg x bg x effects x texts, judged by an independent SGR terminal-state interpreter"
LEVEL_TEXT = ("Exploration: every documented colour spec is enumerated completely as foreground and as background and all "
              "32 effect subsets are run; combinations (fg x bg x effects x no_color x multi-chunk texts) are sampled "
              "(~16k per quick run). Each emitted string is replayed through an independent terminal model: per-character "
              "fg/bg/effects, default state after every chunk, strip_colors == plain_text, bytes == text formatter, "
              "ValueError for invalid specs. Right level: the spec space is a product of small finite axes, so single-axis "
              "completeness plus sampled pairs reaches every code path of the sequence builder.")
LEVEL_NOTE = "Trusted: vlib/sgr.py (the terminal model, ~100 lines), Hypothesis. Texts contain no ESC; bool/list specs not generated."
