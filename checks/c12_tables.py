"""C12 - tables are rectangular, aligned, width-bounded and account for every record.

Oracle: vlib.tables.check_text parses the no_color text using only the border line and the
generated case; no package code is reused.
"""
from vlib import tables
from vlib.core import Outcome, Part

ID = "C12"
RULE = ("records: 0-40 tuples / namedtuples / dicts (by value path) of None, bool, int, float, str over an alphabet "
        "containing | + - . and blanks; columns: selections with repeats and omissions, min-max / n / 0 widths, hidden "
        "(-1) fields, break-by marks, one- and multi-line titles (str with newlines, lists with non-str items), enum "
        "fields (known / unknown / None values, MISSING entry) in all four modifiers, header/footer absent / short / "
        "longer than the table, limits None or (n, m) incl. zeros via fmt or limits=, skip_columns. Non-trivial = a cell "
        "was truncated, or limits applied, or a column of width <= 2, or break lines, or an enum column; distinct by "
        "case hash."
        " Also: the same row object at several positions; width exchange between columns after a print; stale (n) width annotations; limits with one None; sql-like field names; str-subclass cell values; a user-defined centred field type.")
ASSUMPTIONS = [
    "width = number of characters (no East-Asian wide / combining characters); no newlines or control chars in values",
    "alignment inside a cell is not judged (any left/right/centre padding accepted)",
    "limits (n, m): n+m+1 body lines may be shown in full or in limited form; more must be limited, fewer must be full",
    "enum 'full' form accepts any number of leading blanks before the value",
    "MISSING enum entry is always given as (name, syntax); at least one visible column",
]


def evaluate(case):
    import ak.ppobj as P
    f = []
    info = set([case["kind"]])
    try:
        t = tables.build(P, case)
        text = str(t.ch_text(no_color=True))
        import ak.color as C
        lines = [tables.line_text(C, ln).plain_text() for ln in t.ch_text(no_color=True)]
        kept = list(t.ch_text(no_color=True))       # line objects collected first, looked at afterwards
        if [tables.line_text(C, ln).plain_text() for ln in kept] != lines:
            f.append(("lines_collected_first_differ", ""))
    except Exception as e:   # noqa
        import traceback
        tb = traceback.extract_tb(e.__traceback__)[-1]
        return Outcome(True, sorted(info), [("table_raises_%s_at_%s" % (type(e).__name__, tb.name), f"{e}")])
    if "\n".join(lines) != text:
        f.append(("lines_differ_from_whole_text", ""))
    if "\x1b" in text:
        f.append(("escape_in_no_color_output", ""))
    ff, inf = tables.check_text(case, text)
    f.extend(ff)
    info |= inf
    if case.get("enums") and any(case["fields"][c["f"]] in case["enums"] for c in tables.visible_cols(case)):
        info.add("enum_column")
        for c in tables.visible_cols(case):
            if case["fields"][c["f"]] in case["enums"]:
                info.add("enum_mod_%s" % c.get("mod"))
    if case.get("skip"):
        info.add("skip_columns")
    nt = bool(info & {"cell_truncated", "limits_applied", "width_le_2", "break_lines", "enum_column"})
    return Outcome(nt, sorted(info), f)


def eval_reformat(case):
    """the table is printed, re-formatted through the fmt setter / remove_columns (possibly printed in between) and
    printed again: the last rendering is judged against the final format exactly like a fresh table"""
    import ak.ppobj as P
    a = case["a"]
    f = []
    info = set(["reformatted"])
    try:
        t = tables.build(P, a)
        str(t.ch_text(no_color=not case["first_colored"]))
        for st_ in case["steps"]:
            if st_[0] == "fmt":
                b = dict(a, cols=st_[1], limits=st_[2], limits_via="fmt", no_value_path=True)
                fmt = tables.fmt_string(b) or ""
                t.fmt = fmt
                info.add("fmt_setter")
            elif st_[0] == "remove":
                t.remove_columns(list(st_[1]))
                info.add("remove_columns")
            elif st_[0] == "limits":
                t.fmt.set_limits(tuple(st_[1]))         # the format object's own method
                info.add("set_limits_on_the_format_object")
            else:
                str(t.ch_text(no_color=not st_[1]))
                info.add("printed_in_between")
        text = str(t.ch_text(no_color=True))
    except Exception as e:   # noqa
        import traceback
        tb = traceback.extract_tb(e.__traceback__)[-1]
        return Outcome(True, sorted(info), [("reformatted_table_raises_%s_at_%s" % (type(e).__name__, tb.name),
                                            f"{e}; steps={case['steps']!r} fmt_a={tables.fmt_string(a)!r}")])
    final = dict(a, cols=case["final"]["cols"], limits=case["final"]["limits"], limits_via="fmt", skip=[])
    ff, inf = tables.check_text(final, text)
    f.extend((b + "_after_reformat", d + f"; steps={case['steps']!r} fmt_a={tables.fmt_string(a)!r}") for b, d in ff)
    info |= inf
    nt = bool(info & {"cell_truncated", "limits_applied", "width_le_2", "break_lines"})
    return Outcome(nt, sorted(info), f)


def eval_interleaved(case):
    """two different tables whose results are consumed line by line, side by side (zip): each must come out exactly as
    it does when printed alone"""
    import itertools
    import ak.ppobj as P
    import ak.color as C
    f = []
    info = set(["interleaved"])
    try:
        ta, tb = tables.build(P, case["a"]), tables.build(P, case["b"])
        la, lb = [], []
        for x, y in itertools.zip_longest(ta.ch_text(no_color=True), tb.ch_text(no_color=True)):
            if x is not None:
                la.append(tables.line_text(C, x).plain_text())
            if y is not None:
                lb.append(tables.line_text(C, y).plain_text())
    except Exception as e:   # noqa
        import traceback
        tb_ = traceback.extract_tb(e.__traceback__)[-1]
        return Outcome(True, sorted(info), [("interleaved_tables_raise_%s_at_%s" % (type(e).__name__, tb_.name), f"{e}")])
    for which, c, lines in (("first", case["a"], la), ("second", case["b"], lb)):
        ff, inf = tables.check_text(c, "\n".join(lines))
        f.extend((b + "_when_interleaved", f"{which} table: {d}") for b, d in ff)
        info |= inf
    nt = "break_lines" in info or "limits_applied" in info
    return Outcome(nt, sorted(info), f)


def st_two_tables():
    from hypothesis import strategies as st
    return st.fixed_dictionaries({"a": tables.st_table_case(max_records=15), "b": tables.st_table_case(max_records=15)})


def parts(tier):
    k = 1 if tier == "quick" else 40
    return [Part("tables", evaluate, strategy=tables.st_table_case, examples=6000 * k),
            Part("reformatted", eval_reformat, strategy=tables.st_reformat_case, examples=3000 * k,
                 note="print, then fmt setter / remove_columns (with prints in between), judged against the final format"),
            Part("interleaved", eval_interleaved, strategy=st_two_tables, examples=2000 * k,
                 note="two tables consumed line by line side by side")]


TECHNIQUE = "property-based testing (Hypothesis): generated tables judged by an independent parser of the no-colour text (border-derived column offsets, per-cell padded/truncated value check, line-sequence model for limits and break lines)"
LEVEL_TEXT = ("Exploration: ~6k generated tables per quick run (240k thorough) covering every column/limit/title/enum option; "
              "each rendering is parsed using only its border line and compared cell by cell with the generated records.")
LEVEL_NOTE = "Trusted: vlib/tables.py model (title/limit/break/enum text rules written from the statement and docs), Hypothesis."
