"""C03 - left-recursive grammars are rejected; accepted grammars always terminate.

Oracle 1 (exactness): own graph - edge A->B iff A has an alternative alpha B beta with alpha =>* empty (own nullable
fixpoint); the constructor must raise GrammarIsRecursive iff that graph has a cycle, for *every* assignment of names
(the package's check walks symbols in name order). Oracle 2 (termination): every parse of an accepted grammar runs
under the stack-depth monitor of vlib.parserguard.
"""
import itertools

from hypothesis import strategies as st

from vlib import grammar as gk
from vlib.core import Outcome, Part
from vlib.parserguard import parse_guarded
from checks.c01_parse_tree_validity import build_parser, concrete_tokens, st_inputs

ID = "C03"
RULE = ("grammar skeletons with unrestricted back references (direct, indirect and hidden cycles behind 1-3 nullable "
        "symbols, cycles unreachable from the start symbol) and extra empty alternatives; for skeletons with <=4 "
        "non-terminals EVERY permutation of the names is constructed (<=24), for 5 a sample of 30; the names come from 6 "
        "sets (A..E, one-letter names mixed with longer names containing those letters, primed names), punctuation "
        "terminals optionally named '%', '{}', '%s', '\\\\', \"'\" through synonyms; both "
        "smart_factorization settings; 3-6 inputs of <=8 tokens per accepted grammar parsed under the stack-depth "
        "monitor. Non-trivial = skeleton has a nullable symbol immediately left of a non-terminal in some alternative; "
        "distinct by (skeleton, naming)."
        " Also: texts of accepted grammars passed as str / list / iterator / generator; a two-alternative operator (nullable.. Q t | LATER); part templates_terminate: 416 ListProds / MapProds / ProdSequence configurations with (nullable) non-terminal items and delimiters, every token string up to length 3-4, accepted grammars must terminate.")
ASSUMPTIONS = [
    "other constructor errors are excluded by construction (only defined symbols, no duplicate alternatives)",
    "termination is decided by the pigeonhole depth criterion; a push budget (400k) exhausted without it is counted inconclusive, never a violation",
]

NAMES = ["A", "B", "C", "D", "E"]
# other sets of non-terminal names (case["nameset"]): one-letter names next to longer names that contain those letters,
# primed names; the verdict may depend neither on the spelling nor on the order of the names
NAME_SETS = [NAMES, ["E", "BASE", "T", "ITEM", "S"], ["S", "ARGS", "T", "TS", "A"], ["T", "ITEM", "E", "TERM", "M"],
             ["E'", "E", "T'", "T", "F"], ["e", "E", "Ee", "eE", "EE"]]
# terminal names given to the punctuation tokens through 'synonyms' when case["odd_terms"]: a terminal name is a label,
# any string may be used (here: characters that are special in %-, {}- and regex-formatting)
ODD_TERMS = {"PLUS": "%", "COMMA": "{}", "SEMI": "%s", "LPAR": "\\", "RPAR": "'"}


def concretise(g, perm, tok_names, nameset=0):
    nts = sorted(g["prods"], key=lambda s: int(s[1:]))
    pool = NAME_SETS[nameset % len(NAME_SETS)]
    mp = {a: pool[perm[i]] for i, a in enumerate(nts)}
    for t in g["terms"]:
        mp[t] = tok_names[t]
    return {"prods": {mp[a]: [[mp[s] for s in alt] for alt in alts] for a, alts in g["prods"].items()},
            "start": mp[g["start"]], "terms": [mp[t] for t in g["terms"]], "kinds": {mp[t]: t for t in g["terms"]}}


def evaluate(case):
    import ak.llparser as L
    g = case["g"]
    tokcfg, names = gk.tok_config(case["syn"] or bool(case.get("odd_terms")), case["kw"])
    if case.get("odd_terms"):
        for grp, odd in ODD_TERMS.items():
            tokcfg["synonyms"][grp] = odd
            names[grp] = odd
    Ga = gk.Grammar(g["prods"], g["start"], set(g["terms"]))
    cyc = Ga.left_recursion_cycle()
    nl = Ga.nullable()
    n = len(g["prods"])
    perms = list(itertools.permutations(range(n))) if case["perms"] == "all" else [tuple(p) for p in case["perms"]]
    f = []
    classes = set(["cyclic" if cyc else "acyclic"])
    nt = any(alt[i] in nl and alt[i + 1] in g["prods"] for alts in g["prods"].values() for alt in alts
             for i in range(len(alt) - 1))
    if nt:
        classes.add("nullable_left_of_nonterminal")
    classes.add("nameset_%d" % (case.get("nameset", 0) % len(NAME_SETS)))
    if case.get("odd_terms"):
        classes.add("odd_terminal_names")
    evals = 0
    outcomes = {}
    for perm in perms:
        conc = concretise(g, perm, names, case.get("nameset", 0))
        conc["all_names"] = names
        for smart in (True, False):
            evals += 1
            try:
                parser = build_parser(L, conc, tokcfg, smart)
                res = "accepted"
            except L.GrammarIsRecursive:
                res = "recursive"
                parser = None
            except Exception as e:   # noqa
                f.append(("constructor_raises_" + type(e).__name__, f"{conc['prods']!r}: {str(e)[-200:]}"))
                continue
            outcomes[(perm, smart)] = res
            if cyc and res == "accepted":
                # demonstrate: the recursive grammar was accepted - does a parse run away?
                detail = f"grammar {conc['prods']!r} start {conc['start']!r} smart_factorization={smart} accepted"
                ran = ""
                for inp in case["inputs"][:4]:
                    tokens = concrete_tokens(conc, inp["toks"])
                    text, _ = gk.render(tokens, inp["seps"])
                    kind, r, stt = parse_guarded(L, parser, text, len(tokens), budget=60000, do_cleanup=False)
                    if kind == "diverged":
                        ran = f"; parse({text!r}) diverges: {r}"
                        break
                f.append(("left_recursive_grammar_accepted" + ("_and_parse_diverges" if ran else ""), detail + ran))
            elif not cyc and res == "recursive":
                f.append(("grammar_without_cycle_rejected", f"grammar {conc['prods']!r} start {conc['start']!r} "
                          f"smart_factorization={smart}"))
            elif res == "accepted":
                for ii, inp in enumerate(case["inputs"]):
                    tokens = concrete_tokens(conc, inp["toks"])
                    text, _ = gk.render(tokens, inp["seps"])
                    # the text as str or as an iterable of lines (list, one-shot iterator, generator): "a tree or a parsing
                    # error" holds for every documented form of the input
                    form = ("str", "iter", "list", "gen")[(ii + len(tokens)) % 4]
                    src = {"str": lambda: text, "list": lambda: text.split("\n"), "iter": lambda: iter(text.split("\n")),
                           "gen": lambda: (ln for ln in text.split("\n"))}[form]()
                    classes.add("text_as_" + form)
                    kind, r, stt = parse_guarded(L, parser, src, len(tokens), do_cleanup=False)
                    evals += 1
                    if kind == "diverged":
                        f.append(("accepted_grammar_parse_diverges", f"grammar {conc['prods']!r} text {text!r}: {r}"))
                    elif kind == "inconclusive":
                        classes.add("inconclusive_push_budget")
                    elif kind == "exception":
                        f.append(("parse_raises_" + type(r).__name__, f"grammar {conc['prods']!r} text {text!r}: {r}"))
                    elif kind == "lexical_error":
                        f.append(("unexpected_LexicalError", f"{text!r}: {r}"))
                    else:
                        classes.add("parse_" + kind)
            if len(f) > 3:
                break
        if len(f) > 3:
            break
    if len(set(outcomes.values())) > 1:
        classes.add("verdict_depends_on_naming")
    key = [g["prods"], g["start"], case["perms"] if case["perms"] != "all" else n, case.get("nameset", 0),
           bool(case.get("odd_terms"))]
    return Outcome(nt, sorted(classes), f[:4], key=key, evals=evals,
                   sample={"skeleton": g["prods"], "start": g["start"], "namings": len(perms), "cyclic": cyc})


@st.composite
def st_case(draw):
    nnt = draw(st.sampled_from([2, 3, 3, 4, 4, 4, 5]))
    g = draw(gk.st_grammar(max_nt=nnt, max_alts=3, max_len=3, back_edges=draw(st.sampled_from(["free", "free", "guarded"]))))
    g = {"prods": {a: [list(x) for x in alts] for a, alts in g["prods"].items()}, "start": g["start"],
         "terms": [t for t in g["terms"] if not t.startswith("KW_")] or ["WORD"]}
    # drop keyword kinds (keywords off here) and add extra empty alternatives
    kws = {}
    pool = [k for k in gk.TERMINAL_KINDS if not k.startswith("KW_")]
    for a, alts in g["prods"].items():
        for alt in alts:
            for i, s in enumerate(alt):
                if s.startswith("KW_"):
                    kws.setdefault(s, pool[len(kws) % len(pool)])
                    alt[i] = kws[s]
    g["terms"] = sorted({s for alts in g["prods"].values() for alt in alts for s in alt if s not in g["prods"]} |
                        set(g["terms"]))
    nts = sorted(g["prods"])
    for a in nts:
        if draw(st.integers(0, 2)) == 0 and [] not in g["prods"][a]:
            g["prods"][a].append([])
    # hidden recursion operator: X -> (nullable..., X-or-earlier, ...)
    if draw(st.booleans()):
        a = draw(st.sampled_from(nts))
        others = [b for b in nts if [] in g["prods"][b]]
        if others:
            alt = [draw(st.sampled_from(others)) for _ in range(draw(st.integers(1, 3)))] + \
                  [draw(st.sampled_from(nts))] + [draw(st.sampled_from(g["terms"]))]
            if alt not in g["prods"][a]:
                g["prods"][a].insert(draw(st.integers(0, len(g["prods"][a]))), alt)
    # guarded (right) recursion operator: X -> (solid, nullable..., X-or-other, ...) where 'solid' is a non-terminal that
    # always consumes a token - NOT left-recursive, but the recursion search must notice that 'solid' is not nullable
    if len(nts) >= 2 and draw(st.integers(0, 2)) == 0:
        a = draw(st.sampled_from(nts))
        solid = draw(st.sampled_from([b for b in nts if b != a]))
        g["prods"][solid] = [[draw(st.sampled_from(g["terms"]))] + alt[1:] if alt else [draw(st.sampled_from(g["terms"]))]
                             for alt in g["prods"][solid]]
        nullables = [b for b in nts if [] in g["prods"][b] and b != solid]
        mid = [draw(st.sampled_from(nullables)) for _ in range(draw(st.integers(0, 2)))] if nullables else []
        alt = [solid] + mid + [draw(st.sampled_from(nts))] + ([draw(st.sampled_from(g["terms"]))] if draw(st.booleans()) else [])
        if alt not in g["prods"][a]:
            g["prods"][a].insert(draw(st.integers(0, len(g["prods"][a]))), alt)
    # two-alternative operator: P -> (nullable.., Q, t) | LATER where Q always consumes a token and LATER is either
    # left-recursive (P t / nullable P t) or not (t P): what the search does after returning from Q decides the verdict on LATER
    if len(nts) >= 2 and draw(st.integers(0, 3)) == 0:
        a = draw(st.sampled_from(nts))
        nullables = [b for b in nts if [] in g["prods"][b] and b != a]
        q = draw(st.sampled_from([b for b in nts if b != a]))
        if nullables and q not in nullables:
            t = draw(st.sampled_from(g["terms"]))
            g["prods"][q] = [[draw(st.sampled_from(g["terms"]))] + alt[1:] if alt else [draw(st.sampled_from(g["terms"]))]
                             for alt in g["prods"][q]]
            first = [draw(st.sampled_from(nullables)) for _ in range(draw(st.integers(1, 2)))] + [q, t]
            later = draw(st.sampled_from([[a, t], [t, a], [draw(st.sampled_from(nullables)), a, t], [t, a, t]]))
            alts = [x for x in g["prods"][a] if x not in (first, later)]
            i = draw(st.integers(0, len(alts)))
            alts.insert(i, first)
            alts.insert(draw(st.integers(i + 1, len(alts))), later)
            g["prods"][a] = alts
    for a in nts:
        d = []
        for alt in g["prods"][a]:
            if alt not in d:
                d.append(alt)
        g["prods"][a] = d
    G = gk.Grammar(g["prods"], g["start"], set(g["terms"]))
    inputs = draw(st_inputs(G, g, draw(st.integers(3, 6)), max_tokens=8, multiline=False))
    n = len(nts)
    if n <= 4:
        perms = "all"
    else:
        perms = [list(p) for p in draw(st.lists(st.permutations(list(range(n))), min_size=30, max_size=30))]
    return {"g": g, "perms": perms, "syn": draw(st.booleans()), "kw": False, "inputs": inputs,
            "nameset": draw(st.sampled_from([0, 0, 1, 2, 3, 4, 5])), "odd_terms": draw(st.integers(0, 3)) == 0}


def regression_cases():
    # F1: {E:[(B,)], A:[()], B:[(A,B,x),(y,)]} accepted under the naming where the nullable symbol sorts first
    g = {"prods": {"N0": [["N2"]], "N1": [[]], "N2": [["N1", "N2", "WORD"], ["NUM"]]}, "start": "N0",
         "terms": ["WORD", "NUM"]}
    inputs = [{"toks": [["NUM", 0], ["WORD", 0]], "seps": ["", " ", ""], "as_list": False, "src": "sentence"}]
    yield {"g": g, "perms": "all", "syn": False, "kw": False, "inputs": inputs}


# ---------------------------------------------------------------------------
# production templates (ListProds / MapProds / ProdSequence) whose item / delimiter symbols are non-terminals that may
# be nullable: the recursion, if any, lives in symbols the template generates. No model of the generated productions is
# used: whatever the constructor accepts must terminate on every input (second sentence of the property).

def eval_template(case):
    import ak.llparser as L
    tokcfg, names = gk.tok_config(True, False)
    item_alts = {"word": [("WORD",)], "word_or_empty": [("WORD",), ()], "empty_or_word": [(), ("WORD",)],
                 "num_word_or_empty": [("NUM", "WORD"), ()]}[case["item"]]
    sep = case["sep"]
    prods = {"ITEM": item_alts}
    sep_sym = None
    if sep == "comma":
        sep_sym = ","
    elif sep in ("opt_comma", "opt_comma_first_empty"):
        prods["SEP"] = [(",",), ()] if sep == "opt_comma" else [(), (",",)]
        sep_sym = "SEP"
    br = ("[", "]") if case["brackets"] else (None, None)
    kind = case["kind"]
    try:
        if kind == "list":
            prods["T"] = L.ListProds(br[0], "ITEM", sep_sym, br[1], allow_final_delimiter=case["final"], optional=case["optional"])
        elif kind == "map":
            prods["T"] = L.MapProds("{" if case["brackets"] else None, "WORD", ":", "ITEM", sep_sym, "}" if case["brackets"] else None,
                                    allow_final_delimiter=case["final"], optional=case["optional"])
        else:
            prods["T"] = L.ProdSequence("ITEM", *(() if sep_sym is None else (sep_sym,)))
        prods["E"] = [("T", ";"), ("T", "NUM", ";")] if case["two_alts"] else [("T", ";")]
        parser = L.LLParser(gk.TOKENIZER, productions=prods, start_symbol_name="E", **tokcfg)
    except L.GrammarError as e:
        return Outcome(False, ["template_grammar_rejected_" + type(e).__name__], [], key=case)
    except (AssertionError, ValueError, TypeError) as e:
        return Outcome(False, ["template_arguments_refused_" + type(e).__name__], [], key=case)
    f = []
    classes = set(["template_grammar_accepted", "template_" + kind])
    alphabet = ["a", "7", ",", ";", "[", "]"] if kind != "map" else ["a", "7", ",", ";", "{", "}", ":"]
    evals = 0
    for n in range(0, case["maxlen"] + 1):
        for toks in itertools.product(alphabet, repeat=n):
            text = " ".join(toks)
            kind_, r, stt = parse_guarded(L, parser, text, len(toks), budget=60000)
            evals += 1
            if kind_ == "diverged":
                f.append(("accepted_template_grammar_parse_diverges", f"{prods!r} text {text!r}: {r}"))
            elif kind_ == "exception":
                f.append(("parse_raises_" + type(r).__name__, f"{prods!r} text {text!r}: {r}"))
            elif kind_ == "inconclusive":
                classes.add("inconclusive_push_budget")
            if f:
                break
        if f:
            break
    return Outcome(True, sorted(classes), f[:2], key=case, evals=evals)


def eval_long_chain(case):
    """a grammar of ~1500 symbols, each reaching the next at the start of a production: accepted when the chain ends in a
    terminal, GrammarIsRecursive when its last symbol goes back to the first - the size of a grammar is no input error"""
    import ak.llparser as L
    tokcfg, names = gk.tok_config(False, False)
    n = case["n"]
    prods = {"S%04d" % i: [("S%04d" % (i + 1), "WORD")] if i % 3 else [("S%04d" % (i + 1),)] for i in range(n)}
    prods["S%04d" % n] = [("S0000", "NUM")] if case["cyclic"] else [("NUM",)]
    f = []
    try:
        L.LLParser(gk.TOKENIZER, productions=prods, start_symbol_name="S0000", **tokcfg)
        res = "accepted"
    except L.GrammarIsRecursive:
        res = "recursive"
    except Exception as e:   # noqa
        res = "raises " + type(e).__name__
    want = "recursive" if case["cyclic"] else "accepted"
    if res != want:
        f.append(("long_chain_of_symbols_" + res.replace(" ", "_"), f"{n + 1} symbols, cyclic={case['cyclic']}: {res}, expected {want}"))
    return Outcome(True, ["chain_of_%d_symbols" % (n + 1)], f, key=case)


def long_chain_cases():
    for n in (50, 1500):
        for cyclic in (False, True):
            yield {"n": n, "cyclic": cyclic}


def template_cases():
    for kind in ("list", "map", "seq"):
        for item in ("word", "word_or_empty", "empty_or_word", "num_word_or_empty"):
            for sep in (None, "comma", "opt_comma", "opt_comma_first_empty"):
                for brackets in (True, False):
                    for final, optional in ((None, None), (True, True), (False, False)):
                        if kind == "seq" and (brackets or final is not None):
                            continue
                        for two_alts in (False, True):
                            yield {"kind": kind, "item": item, "sep": sep, "brackets": brackets, "final": final,
                                   "optional": optional, "two_alts": two_alts, "maxlen": 3 if kind == "map" else 4}


def parts(tier):
    k = 1 if tier == "quick" else 40
    return [
        Part("regressions", evaluate, enumerate=regression_cases, exhaustive=True),
        Part("long_chains", eval_long_chain, enumerate=long_chain_cases, exhaustive=True,
             note="chains of 51 and 1501 symbols, acyclic and cyclic"),
        Part("templates_terminate", eval_template, enumerate=template_cases, exhaustive=True,
             note="template symbols with (nullable) non-terminal items / delimiters; every token string up to length 3-4"),
        Part("skeletons_all_namings", evaluate, strategy=st_case, examples=4000 * k,
             note="every permutation of the names for skeletons with <=4 non-terminals"),
    ]


TECHNIQUE = "property-based testing (Hypothesis) over grammar skeletons x exhaustive name permutations; differential against an independent nullable/left-recursion graph; termination by a deterministic stack-depth (pigeonhole) monitor"
LEVEL_TEXT = ("Exploration: ~1.2k generated skeletons per quick run (48k thorough), each constructed under every name permutation (<=24) "
              "and both factorisation settings; the constructor's verdict is compared with an independent cycle test and every parse "
              "of an accepted grammar is monitored for unbounded stack growth. Name assignments are exhaustive for <=4 non-terminals.")
LEVEL_NOTE = "Trusted: vlib/grammar.py (nullable fixpoint, cycle search), vlib/parserguard.py. Inconclusive budget hits are reported, never flagged."
