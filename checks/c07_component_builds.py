"""C07 - component builds are reported at the first parent build that ships them.

Sub-domain where the statement is unambiguous: a component repository with one linear release branch and a
parent repository whose branches form a tree (linear segments forking from lower-sorted branches); every parent
commit pins an existing component build and pins never decrease along a path.
"""
from hypothesis import strategies as st

from vlib import fakegit
from vlib.core import Outcome, Part
from vlib.guard import call_budget, Diverged
from checks.c06_history_report import tag_branch_str

ID = "C07"
RULE = ("part included_at: component repo = one release branch, 1-10 commits in a linear history or a DAG with forks and merges "
        "(parallel tagged sub-branches), build numbers increasing with the commit order, builds with and without matching commits, optional unbuilt head; parent repo = 1-4 "
        "branches (release/N.M and/or master), each a linear segment of 0-4 commits forking from an arbitrary commit of a "
        "lower-sorted branch, every commit pins a component build (never decreasing along a path), parent build tags and "
        "heads anywhere, parent commits with or without matching messages, all times inside the cut-off windows, repositories "
        "supplied in any order; a third of the cases add a third repository that pins builds of the parent (the parent "
        "then being report-related possibly only through component bumps); a component commit may carry two build tags and "
        "either number may be pinned. Part dependency_graphs: 2-5 repository classes with generated component locations (DAGs "
        "and cyclic graphs, references to repositories that are not supplied) in generated supply order. Non-trivial = a "
        "parent build whose pin crosses >=2 report-related component builds, or a branch forking below a pin change, or a pin "
        "to a component build without matching commit; distinct by case hash."
        " Also: 0-3 earlier reports on the same collection object; either line of a component merge as first parent."
        " Part time_spread (metamorphic, no model): a middle repository with 1-4 branches (most commits built, own matching commits) and an app whose "
        "pins walk along one root-to-head path of it; the same history is reported once with all commit times inside an hour and once spread "
        "over up to 20 days (parents before children, every app commit later than the build it pins); reported builds and included_at of both "
        "repositories must be identical. Non-trivial there = some middle build is shipped by an app build and the middle history is longer than a day.")
ASSUMPTIONS = [
    "more than 400k (report) / 20k (dependency analysis) Python calls inside ak/ghist.py for these tiny inputs is a divergence (normal runs need a few thousand)",
    "the component has a single branch; the set of report-related component builds is read from the component's own report (its placement rules are C06's property); with merge commits in the parent (part included_at_parent_merges) 'the first build' is read as: every build of the branch that ships the component build while none of its ancestor builds does",
    "pins always name an existing component build tag; pinned versions never decrease along a path",
    "builds are detected by build tags (the default detector). RepoBuildsBySavedBuildNumDetector is documented as a best guess; on the unchanged tree it labels an unbuilt head with the last saved version and records it as shipped by the parent build that pins that version, so C07 is not claimed for it (case['comp_detect'] = 'saved' exists for experiments, it is never generated)",
    "a parent build commit carries one build tag: which of several numbers names a multiply tagged parent build is not part of the statement",
    "at most one build tag per commit; commit times: component first, parent later (inside the 1-day / 30-day windows)",
    "part time_spread: both time assignments are inside the windows (span <= 20 days < the 30-day branch window; an app commit older than the earliest report-related middle build minus one day can only pin a build without report-related content); several component branches are allowed there because no reading of 'contains' is needed for the comparison",
    "included_at entries are compared as multisets of (parent repo, parent branch, shown build number)",
]


def comp_spec(case):
    commits = []
    ver = []
    for i, c in enumerate(case["comp"]["commits"]):
        msg = ("%s in component %d" % (case["search"], i)) if c["match"] else ("component change %d" % i)
        ps = c.get("parents", [i - 1] if i else [])
        # the version saved in the sources: bumped by the build commits, otherwise what the parents have (the highest one
        # at a merge); only read when the component detects its builds by saved version
        ver.append(c["tag"] if c.get("tag") is not None else max([ver[p] for p in ps], default=0))
        commits.append({"parents": ps, "msg": msg, "ts": 100 + i,
                        "files": {"VERSION": "1.0.%d" % ver[i] if case.get("comp_detect") == "saved" else "1.0"}})
    if case.get("comp_detect") == "saved":
        return {"name": "comp", "commits": commits, "branches": {"release/1.0": len(commits) - 1}, "tags": []}
    tags = [["build_%d_release_1_0_success" % c["tag"], i] for i, c in enumerate(case["comp"]["commits"])
            if c.get("tag") is not None]
    tags += [["build_%d_release_1_0_success" % c["tag2"], i] for i, c in enumerate(case["comp"]["commits"])
             if c.get("tag2") is not None]
    return {"name": "comp", "commits": commits, "branches": {"release/1.0": len(commits) - 1}, "tags": tags}


def comp2_spec(case):
    """a second, linear component 'libb' (branch release/4.2) pinned by the same parent"""
    commits = []
    for i, c in enumerate(case["comp2"]["commits"]):
        msg = ("%s in libb %d" % (case["search"], i)) if c["match"] else ("libb change %d" % i)
        commits.append({"parents": [i - 1] if i else [], "msg": msg, "ts": 200 + i, "files": {"VERSION": "4.2"}})
    tags = [["build_%d_release_4_2_success" % c["tag"], i] for i, c in enumerate(case["comp2"]["commits"])
            if c.get("tag") is not None]
    return {"name": "libb", "commits": commits, "branches": {"release/4.2": len(commits) - 1}, "tags": tags}


def app_spec(case):
    commits = []
    for i, c in enumerate(case["app"]["commits"]):
        msg = ("%s in app %d" % (case["search"], i)) if c["match"] else ("app change %d" % i)
        commits.append({"parents": c["parents"], "msg": msg, "ts": 9000 + i * 10,
                        "files": {"VERSION": "3.3", "DEPS.txt": "main=%s\n" % c["pin"]}})
    tags = [["build_%d_%s_success" % (c["tag"], tag_branch_str(c["tag_branch"])), i]
            for i, c in enumerate(case["app"]["commits"]) if c.get("tag") is not None]
    return {"name": "app", "commits": commits, "branches": dict(case["app"]["branches"]), "tags": tags}


def parent_spec(case):
    commits = []
    for i, c in enumerate(case["parent"]["commits"]):
        msg = ("%s in parent %d" % (case["search"], i)) if c["match"] else ("parent change %d" % i)
        commits.append({"parents": c["parents"], "msg": msg, "ts": 5000 + i * 10,
                        "files": {"VERSION": "7.1", "DEPENDS": "# deps\ncomp=1.0.%d\nother=3.4.5\n" % c["pin"] +
                                  ("libb=4.2.%d\n" % c["pin2"] if c.get("pin2") is not None else "")}})
    tags = [["build_%d_%s_success" % (c["tag"], tag_branch_str(c["tag_branch"])), i]
            for i, c in enumerate(case["parent"]["commits"]) if c.get("tag") is not None]
    return {"name": "main", "commits": commits, "branches": dict(case["parent"]["branches"]), "tags": tags}


def parent_label(c):
    if c.get("tag") is None:
        return "not built"
    b = c["tag_branch"]
    if b == "master":
        return "7.1.%d" % c["tag"]
    parts = b.split("/")[-1].split(".")
    return "%s.%s.%d" % (parts[0], parts[1], c["tag"])


def model_level(comp_parents, key_to_idx, K, pc, pbranches, parent_id, label_of):
    """comp_parents: parent lists of the component's commits; key_to_idx: pinned version -> component commit index;
    K: commit indexes of the component's reported (non-fake) builds (read from the component's own report - their
    placement is C06's business); pc / pbranches: parent commits (with 'pin') and branch heads."""
    canc = fakegit.ancestors_or_self(comp_parents)

    def contains(pin):
        cv = key_to_idx[pin]
        return {k for k in K if k in canc[cv]}
    parents = [c["parents"] for c in pc]
    anc = fakegit.ancestors_or_self(parents)
    order = sorted(pbranches, key=fakegit.branch_sort_key)
    L = set()
    incl = {k: [] for k in K}
    must_report = []
    info = set()
    for y in order:
        h = pbranches[y]
        R = anc[h]
        builds = sorted(c for c in R if (pc[c].get("tag") is not None or c == h) and c not in L)
        for b in builds:
            prev = set()
            for b2 in builds:
                if b2 != b and b2 in anc[b]:
                    prev |= contains(pc[b2]["pin"])
            new = contains(pc[b]["pin"]) - prev
            if new:
                must_report.append((y, b))
                if len(new) >= 2:
                    info.add("pin_crosses_2_component_builds")
                if not pc[b]["match"]:
                    info.add("parent_build_without_own_matching_commit")
            for k in new:
                incl[k].append((parent_id, y, label_of(pc[b])))
        L |= R
    return incl, must_report, info


def reported_builds(rgraph):
    """-> ({commit idx: sorted included_at triples}, K)"""
    seen, K = {}, set()
    for rb in rgraph.branches:
        for b in rb.get_rbuilds_list():
            if b.rcommit is None:
                continue
            idx = b.rcommit.commit.idx
            seen[idx] = sorted((str(r), str(br), "not built" if bn.is_fake_not_built() else str(bn))
                               for r, br, bn in b.included_at)
            if not b.build_num.is_fake_not_built():
                K.add(idx)
    return seen, K


def compare_level(f, tag, seen_builds, K, incl, must_report, prg, ctx):
    for k in K:
        want = sorted(incl[k])
        got = [x for x in seen_builds[k]]
        if got != want:
            extra = [x for x in got if x not in want]
            missing = [x for x in want if x not in got]
            kind = "included_at_extra_parent_build" if extra and not missing else \
                "included_at_missing_parent_build" if missing and not extra else "included_at_wrong_parent_build"
            if not extra and not missing:
                kind = "included_at_duplicate_entry"
            f.append((kind + tag, f"component build at commit {k}: included_at {got}, expected {want}; {ctx}"))
    for idx, got in seen_builds.items():
        if idx not in K and got:
            f.append(("included_at_on_unexpected_component_build" + tag, f"component commit {idx}: {got}; {ctx}"))
    reported = {(rb.branch_name, b.rcommit.commit.idx) for rb in prg.branches for b in rb.get_rbuilds_list()
                if b.rcommit is not None}
    for y, b in must_report:
        if (y, b) not in reported:
            f.append(("parent_build_with_component_bump_not_reported" + tag, f"branch {y} build commit {b}; {ctx}"))


def evaluate(case):
    if "graph" in case:
        return eval_graph(case)
    if case.get("time_spread"):
        return eval_time_spread(case)
    import logging
    import ak.ghist as G
    from vlib import core as _core
    if not _core.debug_logs_active():
        logging.getLogger("ak.ghist").setLevel(logging.ERROR)    # 'references unknown version' warnings are expected
    f = []
    classes = set()
    crepo = fakegit.FakeRepo(comp_spec(case))
    prepo = fakegit.FakeRepo(parent_spec(case))
    CompCls = fakegit.make_project_repo_class(G, name="CompRepo")
    if case.get("comp_detect") == "saved":
        # the other way a repository may tell its builds: a commit is a build when the version saved in its sources
        # differs from that of all its parents
        class CompCls(CompCls):
            def make_builds_detector(self):
                return G.RepoBuildsBySavedBuildNumDetector(self)
        classes.add("component_builds_detected_by_saved_version")
    locs = {"comp": "DEPENDS"}
    if case.get("comp2"):
        locs["libb"] = "DEPENDS"
    MainCls = fakegit.make_project_repo_class(G, locs, name="MainRepo")
    repos = {"comp": CompCls("comp", crepo, "origin"), "main": MainCls("main", prepo, "origin")}
    expected_order = ["comp", "main"]
    if case.get("comp2"):
        LibCls = fakegit.make_project_repo_class(G, name="LibbRepo")
        repos["libb"] = LibCls("libb", fakegit.FakeRepo(comp2_spec(case)), "origin")
        expected_order = None            # two independent components: only 'both before main' is required
        classes.add("parent_pins_two_components")
    if case.get("app"):
        AppCls = fakegit.make_project_repo_class(G, {"main": "DEPS.txt"}, name="AppRepo")
        repos["app"] = AppCls("app", fakegit.FakeRepo(app_spec(case)), "origin")
        if expected_order is not None:
            expected_order.append("app")
        classes.add("three_level_chain")
    keys = list(repos)
    rot = case.get("order_rot", 0) % len(keys)
    if case.get("order") == "main_first":
        rot = 1
    keys = keys[rot:] + keys[:rot]
    repos = {k: repos[k] for k in keys}
    ctx = f"comp={[(i, c.get('parents'), c['match'], c.get('tag'), c.get('tag2')) for i, c in enumerate(case['comp']['commits'])]!r} " \
          f"parent={[(i, c['parents'], c['match'], c['pin'], c.get('tag'), c.get('tag_branch')) for i, c in enumerate(case['parent']['commits'])]!r} " \
          f"branches={case['parent']['branches']!r}" + (f" app={case['app']!r}" if case.get("app") else "")
    try:
        with call_budget(600000, "ak/ghist.py"):
            coll = G.ReposCollection(repos)
            if expected_order is not None and coll.sorted_repos != expected_order:
                f.append(("component_not_analysed_first", f"sorted_repos={coll.sorted_repos}"))
            if expected_order is None:
                so = list(coll.sorted_repos)
                if so.index("main") < 2 or ("app" in so and so.index("app") < so.index("main")):
                    f.append(("component_not_analysed_first", f"sorted_repos={coll.sorted_repos}"))
            for i in range(case.get("prior", 0)):
                # earlier reports made with the same collection object (for the same or for another search text)
                coll.make_reports_data([case["search"], "no-such-text"][(i + case.get("prior", 0)) % 2])
                classes.add("collection_already_produced_%d_reports" % case["prior"])
            data = dict(coll.make_reports_data(case["search"]))
            if case.get("render"):
                str(coll.make_report(case["search"]).ch_text(no_color=True))
    except Diverged as e:
        return Outcome(True, [], [("report_diverges", f"{e}; {ctx}")])
    except Exception as e:   # noqa
        import traceback
        where = traceback.extract_tb(e.__traceback__)[-1].name
        return Outcome(True, [], [("report_raises_%s_in_%s" % (type(e).__name__, where), f"{e}; {ctx}")])
    cc_ = case["comp"]["commits"]
    comp_parents = [c.get("parents", [i - 1] if i else []) for i, c in enumerate(cc_)]
    seen_builds, K = reported_builds(data["comp"])
    # sanity of K itself (exact placement is C06's property): every matching component commit lies in some reported build
    canc_ = fakegit.ancestors_or_self(comp_parents)
    for i, c in enumerate(cc_):
        if c["match"] and i in canc_[len(cc_) - 1] and not any(i in canc_[k] for k in seen_builds):
            f.append(("matching_component_commit_in_no_reported_build", f"component commit {i}; {ctx}"))
    key_to_idx = {}
    for i, c in enumerate(cc_):
        for t in (c.get("tag"), c.get("tag2")):
            if t is not None:
                key_to_idx[t] = i
    incl, must_report, info = model_level(comp_parents, key_to_idx, K, case["parent"]["commits"], case["parent"]["branches"],
                                          "main", parent_label)
    classes |= info
    if case.get("comp2"):
        # the second component is judged by the same model, with its own pins
        c2 = case["comp2"]["commits"]
        seen2, K2 = reported_builds(data["libb"])
        key2 = {c["tag"]: i for i, c in enumerate(c2) if c.get("tag") is not None}
        pc2 = [dict(c, pin=c["pin2"]) for c in case["parent"]["commits"]]
        inclb, mustb, _infob = model_level([[i - 1] if i else [] for i in range(len(c2))], key2, K2, pc2,
                                           case["parent"]["branches"], "main", parent_label)
        must_report = sorted(set(must_report) | set(mustb))
        compare_level(f, "_second_component", seen2, K2, inclb, [], data["main"], ctx + f" comp2={c2!r} pins2={[c['pin2'] for c in pc2]!r}")
    compare_level(f, "", seen_builds, K, incl, must_report, data["main"], ctx)
    if case.get("app"):
        # second level: the parent repository is itself a component of 'app'
        mseen, mK = reported_builds(data["main"])
        pcs = case["parent"]["commits"]
        mkey = {parent_label(c): i for i, c in enumerate(pcs) if c.get("tag") is not None}
        incl2, must2, info2 = model_level([c["parents"] for c in pcs], mkey, mK, case["app"]["commits"],
                                          case["app"]["branches"], "app", parent_label)
        if mK:
            classes.add("report_related_builds_in_middle_repo")
            if not any(c["match"] for c in pcs):
                classes.add("middle_repo_without_own_matching_commit")
        compare_level(f, "_level2", mseen, mK, incl2, must2, data["app"], ctx)
    if any(c.get("tag2") is not None for c in cc_):
        classes.add("component_commit_with_two_build_tags")
    pc = case["parent"]["commits"]
    cc = case["comp"]["commits"]
    if any(key_to_idx[p["pin"]] not in K for p in pc):
        classes.add("pin_to_build_without_matching_commit")
    if any(len(c.get("parents", [])) >= 2 for c in cc):
        classes.add("component_history_with_merges")
    if any(len(c["parents"]) > 1 for c in case["parent"]["commits"]):
        classes.add("parent_history_with_merges")
    heads = case["parent"]["branches"]
    if len(heads) >= 2:
        classes.add("several_parent_branches")
        # fork below a pin change
        for i, c in enumerate(pc):
            kids = [j for j, d in enumerate(pc) if i in d["parents"]]
            if len(kids) >= 2 and any(pc[j]["pin"] != c["pin"] for j in kids):
                classes.add("fork_below_pin_change")
    if K:
        classes.add("has_report_related_component_builds")
    nt = bool(K) and bool(classes & {"pin_crosses_2_component_builds", "fork_below_pin_change",
                                     "pin_to_build_without_matching_commit"})
    return Outcome(nt, sorted(classes), f[:4])


def eval_graph(case):
    import ak.ghist as G
    gr = case["graph"]           # {repo_id: [component ids]}
    supplied = case["supplied"]  # list of repo ids in supply order
    f = []

    class Dummy(G.ProjectRepo):
        def __init__(self, repo_id):     # no git repository needed for ordering
            self.repo_id = repo_id
            self.repo = None
            self.remote_name = "origin"
    repos = {}
    for rid in supplied:
        cls = type("Repo_" + rid, (Dummy,), {"_COMPONENTS_VERSIONS_LOCATIONS": {c: "DEPENDS" for c in gr.get(rid, [])}})
        repos[rid] = cls(rid)
    # cycle restricted to supplied repos
    sub = {r: [c for c in gr.get(r, []) if c in repos] for r in repos}
    color = {}

    def dfs(u):
        color[u] = 1
        for v in sub[u]:
            if color.get(v) == 1 or (v not in color and dfs(v)):
                return True
        color[u] = 2
        return False
    cyclic = any(u not in color and dfs(u) for u in sorted(sub))
    classes = ["dependency_graph", "cyclic_dependencies" if cyclic else "acyclic_dependencies"]
    try:
        with call_budget(20000, "ak/ghist.py"):
            coll = G.ReposCollection(repos)
        order = coll.sorted_repos
        if cyclic:
            f.append(("cyclic_dependencies_accepted", f"graph={sub!r} supplied={supplied!r} -> {order!r}"))
        else:
            if sorted(order) != sorted(repos):
                f.append(("sorted_repos_is_not_a_permutation", f"{order!r} for {supplied!r}"))
            pos = {r: i for i, r in enumerate(order)}
            for r, comps in sub.items():
                for c in comps:
                    if pos.get(c, -1) > pos.get(r, -1):
                        f.append(("component_sorted_after_owner", f"graph={sub!r} supplied={supplied!r} -> {order!r}"))
    except Diverged as e:
        f.append(("dependency_analysis_diverges", f"graph={sub!r} supplied={supplied!r}: {e}"))
    except ValueError as e:
        if not cyclic:
            f.append(("acyclic_dependencies_rejected", f"graph={sub!r} supplied={supplied!r}: {e}"))
    except Exception as e:   # noqa
        f.append(("repos_collection_raises_" + type(e).__name__, f"graph={sub!r} supplied={supplied!r}: {e}"))
    if any(c not in repos for r in repos for c in gr.get(r, [])):
        classes.append("reference_to_repo_not_supplied")
    return Outcome(len(repos) >= 3, classes, f[:3])


# ---------------------------------------------------------------------------

@st.composite
def st_case(draw, merges=False):
    search = draw(st.sampled_from(["BUG-7", "fix"]))
    nc = draw(st.integers(1, 8))
    linear = draw(st.booleans()) and not (merges and draw(st.booleans()))
    ccommits = []
    tips = []
    forced = None
    if merges and draw(st.booleans()):
        # component shape: chain, two parallel lines of builds, merge, optional tail
        a = draw(st.integers(1, 2))
        l1, l2 = draw(st.integers(1, 2)), draw(st.integers(1, 2))
        forced = [[]] + [[i - 1] for i in range(1, a)]
        t1 = a - 1
        for _ in range(l1):
            forced.append([t1])
            t1 = len(forced) - 1
        t2 = a - 1
        for _ in range(l2):
            forced.append([t2])
            t2 = len(forced) - 1
        forced.append([t2, t1] if draw(st.booleans()) else [t1, t2])
        for _ in range(draw(st.integers(0, 1))):
            forced.append([len(forced) - 1])
        nc = len(forced)
        linear = False
    for i in range(nc):
        if forced is not None:
            parents = sorted(forced[i], reverse=True) if len(forced[i]) > 1 else list(forced[i])
            tips = [i]
            ccommits.append({"parents": parents, "match": draw(st.integers(0, 3)) > 0,
                             "tag": 0 if draw(st.integers(0, 5)) > 0 else None})
            continue
        if i == 0:
            parents = []
        elif linear or draw(st.integers(0, 2)) > 0 or len(tips) < 2:
            if not linear and draw(st.integers(0, 3)) == 0:
                parents = [draw(st.integers(0, i - 1))]          # fork from an older commit: new tip
            else:
                parents = [tips[-1]]
        else:
            parents = sorted(draw(st.permutations(tips))[:2], reverse=True)   # merge two tips
        for p in parents:
            if p in tips:
                tips.remove(p)
        tips.append(i)
        ccommits.append({"parents": parents, "match": draw(st.booleans()),
                         "tag": 0 if draw(st.integers(0, 2)) > 0 else None})
    while len(tips) > 1:
        a, b = tips.pop(), tips.pop()
        ccommits.append({"parents": sorted([a, b], reverse=True), "match": draw(st.booleans()),
                         "tag": 0 if draw(st.booleans()) else None})
        tips.append(len(ccommits) - 1)
    if all(c["tag"] is None for c in ccommits):
        ccommits[draw(st.integers(0, len(ccommits) - 1))]["tag"] = 0
    nums = sorted(draw(st.lists(st.integers(1, 500), min_size=len(ccommits), max_size=len(ccommits), unique=True)))
    comp_detect = "tags"      # ("saved": see ASSUMPTIONS - kept in the case format for experiments only)
    for c in ccommits:
        if len(c["parents"]) > 1 and draw(st.booleans()):
            c["parents"] = c["parents"][::-1]          # either line may be the first parent of a merge
    tagged = [c for c in ccommits if c["tag"] is not None]
    for c, n in zip(tagged, nums):
        c["tag"] = 2 * n          # build numbers increase with the (topological) commit order
        if comp_detect == "tags" and draw(st.integers(0, 4)) == 0:
            c["tag2"] = 2 * n + 1     # the same commit was built twice
    pins = sorted([c["tag"] for c in tagged] + [c["tag2"] for c in tagged if c.get("tag2") is not None])
    names = draw(st.lists(st.sampled_from(["release/1.0", "release/2.0", "release/10.0", "release/2.10", "master", "release/0.9", "release/0.0"]),
                          min_size=1, max_size=4, unique=True))
    names.sort(key=fakegit.branch_sort_key)
    pcommits = []
    branches = {}
    tagnums = iter(sorted(draw(st.lists(st.integers(1, 900), min_size=80, max_size=80, unique=True))))

    def add_commit(parent, minpin_i, other=None, force_pin=None, tag_p=3):
        pi = draw(st.integers(minpin_i, len(pins) - 1))
        if draw(st.integers(0, 2)) == 0:
            pi = minpin_i
        if merges and draw(st.integers(0, 3)) > 0:
            pi = min(len(pins) - 1, minpin_i + draw(st.sampled_from([0, 1, 1, 1, 2])))     # small steps through the builds
        if force_pin is not None:
            pi = force_pin
        tag = None
        if draw(st.integers(0, tag_p - 1)) == 0 or (tag_p == 1):
            tag = next(tagnums)
        plist = [] if parent is None else [parent]
        if other is not None:
            plist = [parent, other] if draw(st.booleans()) else [other, parent]
        pcommits.append({"parents": plist, "match": draw(st.integers(0, 2)) == 0,
                         "pin": pins[pi], "pin_i": pi, "tag": tag, "tag_branch": draw(st.sampled_from(names))})
        return len(pcommits) - 1
    def diamond(cur):
        # two parallel lines of (mostly tagged) parent commits from `cur`, merged again; the second line may pin exactly
        # what the first line ends with
        a = cur
        for _ in range(draw(st.integers(1, 2))):
            a = add_commit(a, pcommits[a]["pin_i"], tag_p=draw(st.sampled_from([1, 1, 2])))
        same = draw(st.booleans()) and pcommits[a]["pin_i"] >= pcommits[cur]["pin_i"]
        b = add_commit(cur, pcommits[cur]["pin_i"], force_pin=pcommits[a]["pin_i"] if same else None,
                       tag_p=draw(st.sampled_from([1, 1, 2])))
        hi = max(pcommits[a]["pin_i"], pcommits[b]["pin_i"])
        return add_commit(a, hi, other=b, tag_p=draw(st.sampled_from([1, 1, 2])))

    def grow(cur):
        if merges and draw(st.integers(0, 3)) == 0:
            return diamond(cur)
        if merges and len(pcommits) >= 2 and draw(st.integers(0, 2)) == 0:
            # merge commit in the parent repository: a second parent from anywhere in the history built so far;
            # its pin is not lower than the pins of both parents
            other = draw(st.integers(0, len(pcommits) - 1))
            if other != cur:
                return add_commit(cur, max(pcommits[cur]["pin_i"], pcommits[other]["pin_i"]), other=other)
        return add_commit(cur, pcommits[cur]["pin_i"])
    for bi, b in enumerate(names):
        if bi == 0:
            cur = add_commit(None, 0)
            for _ in range(draw(st.integers(0, 4 if not merges else 6))):
                cur = grow(cur)
        else:
            cur = draw(st.integers(0, len(pcommits) - 1))      # fork point inside an earlier branch
            for _ in range(draw(st.integers(0, 4))):
                cur = grow(cur)
        branches[b] = cur
    for c in pcommits:
        c.pop("pin_i")
    case = {"search": search, "comp_detect": comp_detect, "comp": {"commits": ccommits}, "parent": {"commits": pcommits, "branches": branches},
            "order_rot": draw(st.integers(0, 2)), "render": draw(st.integers(0, 4)) == 0,
            "prior": draw(st.sampled_from([0, 0, 0, 1, 1, 2, 3]))}
    if draw(st.integers(0, 3)) == 0:
        n2 = draw(st.integers(1, 4))
        nums2 = sorted(draw(st.lists(st.integers(1, 300), min_size=n2, max_size=n2, unique=True)))
        c2 = [{"match": draw(st.booleans()), "tag": nums2[i] if (i == n2 - 1 or draw(st.integers(0, 2)) > 0) else None}
              for i in range(n2)]
        pins2 = [c["tag"] for c in c2 if c["tag"] is not None]
        case["comp2"] = {"commits": c2}
        # pins of the second component: never decreasing along every path (parents come first in the list)
        for c in pcommits:
            lo = max([pcommits[p]["_p2"] for p in c["parents"]], default=0)
            c["_p2"] = draw(st.integers(lo, len(pins2) - 1))
            c["pin2"] = pins2[c["_p2"]]
        for c in pcommits:
            c.pop("_p2")
    main_labels = [parent_label(c) for c in pcommits if c.get("tag") is not None]
    if main_labels and len(names) == 1 and draw(st.integers(0, 1)) == 0:
        # (only when the middle repository has a single branch: with several component branches 'contains' admits
        # several readings, see ASSUMPTIONS)
        # a third repository pins builds of the parent; pins are drawn in the parent's (topological) build order
        if draw(st.booleans()):
            for c in pcommits:
                c["match"] = False          # the middle repository may be report-related through bumps only
        acommits = []
        li = 0
        for i in range(draw(st.integers(1, 5))):
            li = draw(st.integers(li, len(main_labels) - 1))
            acommits.append({"parents": [i - 1] if i else [], "match": draw(st.integers(0, 2)) == 0, "pin": main_labels[li],
                             "tag": next(tagnums) if draw(st.booleans()) else None, "tag_branch": "release/3.0"})
        case["app"] = {"commits": acommits, "branches": {"release/3.0": len(acommits) - 1}}
    return case


# ---------------------------------------------------------------------------
# metamorphic: commit times packed into minutes vs spread over days (inside the windows)
# ---------------------------------------------------------------------------

DAY = 86400


def spread_times(case):
    """-> (times of the middle repository's commits, times of app's commits): parents before children, at most 20 days in
    all (the 30-day window for old branches is never reached), every app commit later than the build it pins"""
    pcs = case["parent"]["commits"]
    steps = case["steps"]
    tm = []
    for i, c in enumerate(pcs):
        base = max([tm[p] for p in c["parents"]], default=5000)
        tm.append(min(base + 10 + steps[i % len(steps)], 5000 + 20 * DAY + i * 10))
    label_idx = {parent_label(c): i for i, c in enumerate(pcs) if c.get("tag") is not None}
    ta = []
    for i, c in enumerate(case["app"]["commits"]):
        ta.append(max(ta[-1] + 10 if ta else 0, tm[label_idx[c["pin"]]] + 5))
    return tm, ta


def eval_time_spread(case):
    import logging
    import ak.ghist as G
    from vlib import core as _core
    if not _core.debug_logs_active():
        logging.getLogger("ak.ghist").setLevel(logging.ERROR)
    ctx = f"middle={[(i, c['parents'], c['match'], c.get('tag'), c.get('tag_branch')) for i, c in enumerate(case['parent']['commits'])]!r} " \
          f"branches={case['parent']['branches']!r} app={[(c['match'], c['pin'], c.get('tag')) for c in case['app']['commits']]!r}"
    tm, ta = spread_times(case)
    ctx += f" spread times: middle={[round((t - 5000) / DAY, 2) for t in tm]} days, app={[round((t - 5000) / DAY, 2) for t in ta]} days"
    results = []
    for spread in (False, True):
        ms = parent_spec(case)
        for c in ms["commits"]:
            c["files"] = {"VERSION": "7.1"}
        as_ = app_spec(case)
        if spread:
            for c, t in zip(ms["commits"], tm):
                c["ts"] = t
            for c, t in zip(as_["commits"], ta):
                c["ts"] = t
        MainCls = fakegit.make_project_repo_class(G, name="MainRepo")
        AppCls = fakegit.make_project_repo_class(G, {"main": "DEPS.txt"}, name="AppRepo")
        repos = {"main": MainCls("main", fakegit.FakeRepo(ms), "origin"), "app": AppCls("app", fakegit.FakeRepo(as_), "origin")}
        if case.get("order_rot"):
            repos = {k: repos[k] for k in ("app", "main")}
        try:
            with call_budget(600000, "ak/ghist.py"):
                data = dict(G.ReposCollection(repos).make_reports_data(case["search"]))
        except Diverged as e:
            return Outcome(True, [], [("report_diverges", f"{e}; {ctx}")])
        except Exception as e:   # noqa
            import traceback
            where = traceback.extract_tb(e.__traceback__)[-1].name
            return Outcome(True, [], [("report_raises_%s_in_%s" % (type(e).__name__, where), f"{e}; {ctx}")])
        summary = {}
        for rid in ("main", "app"):
            for rb in data[rid].branches:
                summary[rid + ":" + str(rb.branch_name)] = [
                    [None if b.rcommit is None else b.rcommit.commit.idx,
                     "not built" if b.build_num.is_fake_not_built() else str(b.build_num),
                     sorted((str(r), str(br), "not built" if bn.is_fake_not_built() else str(bn)) for r, br, bn in b.included_at)]
                    for b in rb.get_rbuilds_list()]
        results.append(summary)
    f = []
    packed, spread_ = results
    if packed != spread_:
        key = next((k for k in sorted(set(packed) | set(spread_)) if packed.get(k) != spread_.get(k)))
        kind = "included_at_depends_on_commit_times" if key.startswith("main:") else "reported_parent_builds_depend_on_commit_times"
        f.append((kind, f"{key}: with all times inside one hour {packed.get(key)!r}, with the same history spread over days "
                        f"{spread_.get(key)!r}; {ctx}"))
    classes = {"time_spread"}
    rel = sum(1 for v in packed.values() for b in v if b[2])
    if rel:
        classes.add("middle_builds_shipped_by_app")
    if len(case["parent"]["branches"]) >= 2:
        classes.add("several_middle_branches")
    if max(tm) - min(tm) > DAY:
        classes.add("middle_history_longer_than_a_day")
    return Outcome(rel > 0 and max(tm) - min(tm) > DAY, sorted(classes), f[:2])


@st.composite
def st_time_spread(draw):
    case = draw(st_case(merges=draw(st.booleans())))       # the middle repository's history: a tree of branches or a DAG with merges
    case.pop("app", None)
    case.pop("comp2", None)
    pcs = case["parent"]["commits"]
    # most commits of the middle repository are builds here
    nums = iter(range(400, 500))
    names = sorted(case["parent"]["branches"])
    for c in pcs:
        if c.get("tag") is None and draw(st.integers(0, 2)) > 0:
            c["tag"] = next(nums)
            c["tag_branch"] = draw(st.sampled_from(names))
        c["match"] = c["match"] or draw(st.integers(0, 2)) == 0
    parents = [c["parents"] for c in pcs]
    anc = fakegit.ancestors_or_self(parents)
    # app pins builds found on one path from the root to a branch head, oldest first (a pin never goes backwards)
    head = case["parent"]["branches"][draw(st.sampled_from(names))]
    path = sorted(i for i in anc[head] if pcs[i].get("tag") is not None)
    chain = []
    for i in path:
        if not chain or chain[-1] in anc[i]:
            chain.append(i)
    if not chain:
        pcs[head]["tag"] = next(nums)
        pcs[head]["tag_branch"] = names[0]
        chain = [head]
    labels = {}
    for i in chain:
        labels.setdefault(parent_label(pcs[i]), i)
    chain = [i for i in chain if labels[parent_label(pcs[i])] == i]
    # labels must name one commit each
    all_labels = [parent_label(c) for c in pcs if c.get("tag") is not None]
    chain = [i for i in chain if all_labels.count(parent_label(pcs[i])) == 1] or None
    if chain is None:
        return None
    acommits = []
    li = 0
    tagn = iter(range(700, 800))
    for i in range(draw(st.integers(1, 5))):
        li = draw(st.integers(li, len(chain) - 1))
        acommits.append({"parents": [i - 1] if i else [], "match": draw(st.integers(0, 3)) == 0, "pin": parent_label(pcs[chain[li]]),
                         "tag": next(tagn) if draw(st.integers(0, 3)) > 0 else None, "tag_branch": "release/3.0"})
    case["app"] = {"commits": acommits, "branches": {"release/3.0": len(acommits) - 1}}
    case["steps"] = draw(st.lists(st.sampled_from([0, 0, 3600, DAY // 2, 2 * DAY, 2 * DAY, 5 * DAY, 9 * DAY]), min_size=3, max_size=9))
    case["time_spread"] = True
    return case


@st.composite
def st_graph(draw):
    n = draw(st.integers(2, 5))
    ids = ["r%d" % i for i in range(n)]
    ids = list(draw(st.permutations(["alpha", "beta", "gamma", "delta", "omega"])))[:n]
    graph = {}
    acyclic = draw(st.booleans())
    for i, r in enumerate(ids):
        pool = ids[:i] if acyclic else [x for x in ids if x != r]
        pool = pool + ["external"]
        graph[r] = draw(st.lists(st.sampled_from(pool), max_size=3, unique=True)) if pool else []
    supplied = list(draw(st.permutations(ids)))
    if draw(st.integers(0, 3)) == 0 and len(supplied) > 2:
        supplied = supplied[:-1]
    return {"graph": graph, "supplied": supplied}


def st_case_merges():
    return st_case(merges=True)


def parts(tier):
    k = 1 if tier == "quick" else 40
    return [Part("included_at", evaluate, strategy=st_case, examples=6000 * k),
            Part("included_at_parent_merges", evaluate, strategy=st_case_merges, examples=4000 * k,
                 note="merge commits in the parent repository; 'first build' = every build that ships the component build while "
                      "none of its ancestor builds does"),
            Part("dependency_graphs", evaluate, strategy=st_graph, examples=3000 * k),
            Part("time_spread", evaluate, strategy=lambda: st_time_spread().filter(lambda c: c is not None), examples=1500 * k,
                 note="metamorphic: the same two-level history with all commit times inside an hour and spread over up to 20 days")]


TECHNIQUE = "model-based property testing (Hypothesis): generated component / parent histories with version pins on an in-memory git back-end, compared with a set-based reference of 'first parent build that ships the component build'; generated dependency graphs for the analysis order; metamorphic relation packed vs spread commit times"
LEVEL_TEXT = ("Exploration on the sub-domain where the statement is unambiguous (tree-shaped parent history, single linear component "
              "branch): ~6k generated two-repository histories per quick run (240k thorough) - the included_at records of every "
              "report-related component build are compared as multisets with the reference, parent builds that ship new component "
              "builds must be reported - plus ~3k dependency graphs for topological order / ValueError on cycles.")
LEVEL_NOTE = "Trusted: the reference model (40 lines), vlib/fakegit.py. Merge commits in the parent and several component branches are NOT covered (see ASSUMPTIONS)."
