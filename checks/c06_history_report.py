"""C06 - the history report attributes every matching commit to the right build per branch.

Reference model (set based, written from the statement) over a generated commit DAG.
"""
from hypothesis import strategies as st

from vlib import fakegit
from vlib.core import Outcome, Part
from vlib.guard import call_budget, Diverged

ID = "C06"
RULE = ("fake git repositories: DAG of <=10 (quick) / <=18 (thorough) commits with 0-3 parents (several roots, merges, "
        "criss-cross), 1-5 branch heads named release/<int>.<int>[.<int>] and/or master placed on ARBITRARY commits (heads "
        "coincide or lie inside another branch's history), 0-2 build tags on any commit, messages that contain the search "
        "text, a super-string of it or neither (also in the body of a multi-line message), generated commit times within the "
        "30-day window. Non-trivial = >=2 branches and (a merge commit, >=2 roots, a head inside another branch, or a matching "
        "commit listed in >=2 branches); distinct by case hash."
        " Also: search texts with significant blanks at their ends; build tags in the project's own format through the parse_buildtag hook.")
ASSUMPTIONS = [
    "more than 400k Python calls inside ak/ghist.py for a history of <=18 commits is a divergence (normal runs need a few thousand)",
    "'contains the search text' is plain substring containment on the whole commit message",
    "when several minimal builds contain a commit (parallel tagged sub-branches) any one of them is accepted",
    "a commit carrying two build tags shows the smaller build number",
    "which branches without any listed commit appear in the report is not judged; the order of those that appear is",
    "the obsolete-branch rule (head older than 30 days) is outside the quantifier: all times lie within one 30-day span, its end points included (so no branch is obsolete)",
]

SEARCH = ["BUG-7", "fix", "#12", "X", "", " ", "v1.2", "(BUG-7)", "a+b", "x|y", "fix*", "[ab]", "\\d", "$1", "c++",
          # blanks at the ends are part of the text ('BUG-7 ' tells BUG-7 from BUG-71)
          "BUG-7 ", " fix", "X\t", " #12 "]
# the search text is a plain substring: messages that a regular-expression reading of it would match, but that do not contain it
REGEX_NEAR = {"v1.2": "v182 released", "(BUG-7)": "see [BUG-7]", "a+b": "aab and ab", "x|y": "only y here", "fix*": "fi fixx",
              "[ab]": "a or b", "\\d": "digit 5", "$1": "1 dollar", "c++": "ccc",
              # ... and messages that contain the text without its blanks only
              "BUG-7 ": "BUG-71 done, see (BUG-7)", " fix": "prefix and suffix", "X\t": "X marks", " #12 ": "#12: closed; (#12)"}


def tag_branch_str(bname):
    return bname.replace("/", "_").replace(".", "_").replace("-", "_")


def build_spec(case, name="main", files_extra=None):
    commits = []
    for i, c in enumerate(case["commits"]):
        files = {"VERSION": "%d.%d" % (7, 1)}
        if files_extra:
            files.update(files_extra(i))
        commits.append({"parents": c["parents"], "msg": c["msg"], "ts": c["ts"], "files": files})
    tags = []
    for n, (idx, bname) in enumerate(case["tags"]):
        if (case.get("legacy_tags") or 0) and (case["tag_nums"][n] + case["legacy_tags"]) % 2:
            # the project's own tag format next to the standard one (the repository class extends parse_buildtag)
            tags.append(["ok/%s/%d" % (tag_branch_str(bname), case["tag_nums"][n]), idx])
        else:
            tags.append(["build_%d_%s_success" % (case["tag_nums"][n], tag_branch_str(bname)), idx])
    return {"name": name, "commits": commits, "branches": dict(case["branches"]), "tags": tags}


def expected_build_label(case, idx):
    nums = []
    for n, (i, bname) in enumerate(case["tags"]):
        if i != idx:
            continue
        num = case["tag_nums"][n]
        # documented default tag format: build_<n>_release_<major>_<minor>_success; anything else -> VERSION file
        import re
        m = re.match(r"release_(\d+)_(\d+)$", tag_branch_str(bname))
        if m:
            nums.append((int(m.group(1)), int(m.group(2)), num))
        else:
            nums.append((7, 1, num))      # from the VERSION file
    if not nums:
        return None
    nums.sort()
    return "%d.%d.%d" % nums[0]


def model(case):
    """-> per branch: dict commit -> ('build', set of acceptable build commit idx) | ('not_merged',) ; plus order"""
    parents = [c["parents"] for c in case["commits"]]
    anc = fakegit.ancestors_or_self(parents)
    search = case["search"]
    matching = {i for i, c in enumerate(case["commits"]) if search in c["msg"]}
    tagged = {i for i, _ in case["tags"]}
    order = sorted(case["branches"], key=fakegit.branch_sort_key)
    exp = {}
    L = set()
    for y in order:
        head = case["branches"][y]
        R = anc[head]
        builds = {c for c in R if (c in tagged or c == head) and c not in L}
        per = {}
        for c in matching:
            if c in R:
                cb = {b for b in builds if c in anc[b]}
                if cb:
                    minimal = {b for b in cb if not any(o != b and o in anc[b] for o in cb)}
                    per[c] = ("build", minimal)
            elif c in L:
                per[c] = ("not_merged",)
        exp[y] = per
        L |= R
    report_order = sorted(case["branches"], key=fakegit.branch_sort_key, reverse=True)
    return exp, report_order, matching, anc


def evaluate(case, _live=None):
    """_live: (ReposCollection, FakeRepo) of an earlier report on the same objects (part two_reports)"""
    import ak.ghist as G
    f = []
    classes = set()
    spec = build_spec(case)
    if _live is None:
        repo = fakegit.FakeRepo(spec)
        Cls = fakegit.make_project_repo_class(G)
    else:
        coll, repo = _live
    try:
        with call_budget(400000, "ak/ghist.py"):
            if _live is None:
                prj = Cls("main", repo, "origin")
                coll = G.ReposCollection({"main": prj})
            if case.get("_keep") is not None:
                case["_keep"].extend([coll, repo])
            data = coll.make_reports_data(case["search"])
            rgraph = dict(data)["main"]
            listing = fakegit.extract_listing(rgraph)
            text = str(coll.make_report(case["search"]).ch_text(no_color=True)) if case.get("render") else None
    except Diverged as e:
        return Outcome(True, [], [("report_diverges", f"{e}; spec={spec!r}")])
    except Exception as e:   # noqa
        import traceback
        where = traceback.extract_tb(e.__traceback__)[-1].name
        return Outcome(True, [], [("report_raises_%s_in_%s" % (type(e).__name__, where), f"{e}; spec={spec!r}")])
    exp, report_order, matching, anc = model(case)
    ctx = f"search={case['search']!r} branches={case['branches']!r} tags={[(t, n) for t, n in zip(case['tags'], case['tag_nums'])]!r} " \
          f"commits={[(i, c['parents'], c['msg']) for i, c in enumerate(case['commits'])]!r}"
    # order of reported branches
    names = [n for n, _ in listing]
    if len(set(names)) != len(names):
        f.append(("branch_reported_twice", f"{names}; {ctx}"))
    pos = [report_order.index(n) for n in names if n in report_order]
    if pos != sorted(pos) or len(pos) != len(names):
        f.append(("branches_in_wrong_order", f"reported {names}, expected order {report_order}; {ctx}"))
    listed_in = {}
    for bname, builds in listing:
        per = exp.get(bname, {})
        seen = {}
        for label, bidx, commits, rb in builds:
            for c in commits:
                seen.setdefault(c, []).append((label, bidx))
                if c not in matching:
                    f.append(("non_matching_commit_listed", f"branch {bname}: commit {c} under {label}; {ctx}"))
            # build label
            if label not in ("not merged",) and bidx is not None:
                want = expected_build_label(case, bidx)
                if want is None:
                    if label != "not built":
                        f.append(("untagged_build_not_shown_as_not_built", f"branch {bname}: commit {bidx} shown as {label}; {ctx}"))
                    elif bidx != case["branches"][bname]:
                        f.append(("not_built_build_is_not_the_head", f"branch {bname}: {bidx}; {ctx}"))
                elif label != want:
                    f.append(("wrong_build_number_shown", f"branch {bname}: commit {bidx} shown as {label}, tag says {want}; {ctx}"))
        for c, where in seen.items():
            listed_in.setdefault(c, set()).add(bname)
            e = per.get(c)
            if len(where) > 1:
                f.append(("commit_listed_twice_in_branch", f"branch {bname}: commit {c} under {where}; {ctx}"))
            elif e is None:
                head = case["branches"][bname]
                kind = "own_commit_listed_as_not_merged" if (where[0][0] == "not merged" and c in anc[head]) else \
                    "commit_listed_where_nothing_expected"
                f.append((kind, f"branch {bname}: commit {c} under {where[0]}; {ctx}"))
            elif e[0] == "not_merged":
                if where[0][0] != "not merged":
                    f.append(("unmerged_commit_listed_under_a_build", f"branch {bname}: commit {c} under {where[0]}; {ctx}"))
            else:
                if where[0][0] == "not merged":
                    f.append(("reachable_commit_listed_as_not_merged", f"branch {bname}: commit {c}; {ctx}"))
                elif where[0][1] not in e[1]:
                    f.append(("commit_listed_under_wrong_build", f"branch {bname}: commit {c} under build commit "
                              f"{where[0][1]} ({where[0][0]}), earliest containing build(s): {sorted(e[1])}; {ctx}"))
        for c, e in per.items():
            if c not in seen:
                kind = "matching_commit_missing_under_build" if e[0] == "build" else "unmerged_commit_not_listed"
                f.append((kind, f"branch {bname}: commit {c} expected {e}; {ctx}"))
    for bname, per in exp.items():
        if bname not in names and per:
            f.append(("branch_with_matching_commits_not_reported", f"{bname}: {per}; {ctx}"))
    if text is not None:
        # the printed report shows the same placement (plain text)
        classes.add("rendered")
        try:
            check_rendered(case, text, listing, repo, f, ctx)
        except Exception as e:   # noqa
            f.append(("rendered_report_unparsable_" + type(e).__name__, f"{e}: {text!r}"))
    # classes
    nb = len(case["branches"])
    parents = [c["parents"] for c in case["commits"]]
    heads = list(case["branches"].values())
    if any(len(p) >= 2 for p in parents):
        classes.add("merge_commit")
    if sum(1 for p in parents if not p) >= 2:
        classes.add("several_roots")
    inside = any(h1 != h2 and h1 in anc[h2] for h1 in heads for h2 in heads) or len(set(heads)) < len(heads)
    if inside:
        classes.add("head_inside_or_equal_other_branch")
    multi = any(len(v) >= 2 for v in listed_in.values())
    if multi:
        classes.add("commit_listed_in_2_branches")
    if any(e[0] == "not_merged" for per in exp.values() for e in per.values()):
        classes.add("not_merged_expected")
    if any(e[0] == "build" and len(e[1]) > 1 for per in exp.values() for e in per.values()):
        classes.add("parallel_minimal_builds")
    nt = nb >= 2 and bool(classes & {"merge_commit", "several_roots", "head_inside_or_equal_other_branch",
                                     "commit_listed_in_2_branches"})
    return Outcome(nt, sorted(classes), f[:4])


def check_rendered(case, text, listing, repo, f, ctx):
    """the printed report must show, branch by branch and build by build, exactly the listed commits"""
    lines = text.split("\n")
    cur_branch = None
    cur_build = None
    got = {}
    for ln in lines:
        s = ln.strip()
        if not s or s.startswith("===="):
            continue
        if s.startswith("main ") and s.endswith(":"):
            cur_branch = s[len("main "):-1]
            cur_build = None
            continue
        if s.startswith("- not merged -") or s.startswith("- not built -") or s[0].isdigit() and "." in s.split(" ")[0] \
                and s.split(" ")[0].count(".") == 2:
            cur_build = s.split(" (")[0].strip().strip("-").strip()
            got.setdefault(cur_branch, []).append((cur_build, []))
            continue
        sha = s.split(" ")[0]
        cands = [c for c in repo.commits if c.hexsha.startswith(sha)]
        if len(sha) == 11 and cands and cur_branch is not None and got.get(cur_branch):
            got[cur_branch][-1][1].append(cands[0].idx)
    exp = {b: [(label, commits) for label, _, commits, _ in builds] for b, builds in listing}
    if got != exp:
        f.append(("printed_report_differs_from_report_data", f"printed {got!r}, data {exp!r}; {ctx}"))


# ---------------------------------------------------------------------------

@st.composite
def st_case(draw, max_commits=10):
    n = draw(st.integers(1, max_commits))
    search = draw(st.sampled_from(SEARCH))
    commits = []
    for i in range(n):
        if i == 0:
            parents = []
        else:
            k = draw(st.sampled_from([0, 1, 1, 1, 1, 2, 2, 3]))
            parents = sorted(set(draw(st.lists(st.integers(max(0, i - 5), i - 1), min_size=min(k, i), max_size=min(k, i)))),
                             reverse=True) if k else []
        kind = draw(st.sampled_from(["match", "match", "super", "none", "none", "body", "empty_title", "near"]))
        if kind == "match":
            msg = "%s something %d" % (search, i)
        elif kind == "super":
            msg = "pre%s7 other %d" % (search, i)
        elif kind == "body":
            msg = "title %d\n\nsee %s in body" % (i, search)
        elif kind == "near":
            msg = "%s %d" % (REGEX_NEAR.get(search, "nothing to see"), i)
        elif kind == "empty_title":
            msg = "%s\n%s in the body only %d" % (draw(st.sampled_from(["", "  "])), search, i)
        else:
            msg = "unrelated change %d" % i
        commits.append({"parents": parents, "msg": msg, "ts": draw(st.integers(0, 86400 * 30) | st.sampled_from([0, 1, 86400 * 29 + 1, 86400 * 30 - 1, 86400 * 30]))})
    nb = draw(st.integers(1, 5))
    names = draw(st.lists(st.sampled_from(["release/1.0", "release/2.0", "release/10.0", "release/1.10", "release/1.2",
                                           "release/1.0.1", "release/9.9", "master", "release/9_10", "release/10_9",
                                           "release/2-11", "release/11-2", "release/x.1", "release/X1", "release/0.5", "release/0.0", "release/1.0.0"]),
                          min_size=nb, max_size=nb, unique=True))
    branches = {b: draw(st.integers(0, n - 1)) for b in names}
    ntags = draw(st.integers(0, min(6, n + 1)))
    tags = []
    percommit = {}
    for _ in range(ntags):
        idx = draw(st.integers(0, n - 1))
        if percommit.get(idx, 0) >= 2:
            continue
        percommit[idx] = percommit.get(idx, 0) + 1
        tags.append([idx, draw(st.sampled_from(names))])
    # build ids may repeat between tags of different branches (per-branch CI counters); the resulting build numbers
    # major.minor.id stay unique
    import re as _re
    tag_nums = []
    seen_labels = set()
    for idx, bname in tags:
        m = _re.match(r"release_(\d+)_(\d+)$", tag_branch_str(bname))
        mm = (int(m.group(1)), int(m.group(2))) if m else (7, 1)
        pool = sorted({n for (_mm, n) in seen_labels}) if seen_labels else []
        num = draw(st.sampled_from(pool) | st.integers(1, 9999)) if pool and draw(st.booleans()) else draw(st.integers(1, 9999))
        while (mm, num) in seen_labels:
            num += 1
        seen_labels.add((mm, num))
        tag_nums.append(num)
    return {"commits": commits, "branches": branches, "tags": tags, "tag_nums": tag_nums, "search": search,
            "render": draw(st.integers(0, 3)) == 0, "legacy_tags": draw(st.sampled_from([0, 0, 1, 2]))}


def eval_two_reports(case):
    """a report, then 'git fetch' brings new build tags / a new branch (nothing else moves), then a second report on the same
    ReposCollection / ProjectRepo objects: the second report is judged like any report of the new state"""
    first = dict(case["first"], _keep=[])
    o1 = evaluate(first)
    f = [(b + "_in_first_report", d) for b, d in o1.findings]
    classes = set(o1.classes) | {"two_reports"}
    if f or len(first["_keep"]) != 2:
        return Outcome(True, sorted(classes), f)
    coll, repo = first["_keep"]
    second = dict(case["second"])
    repo.stage(build_spec(second))
    try:
        ns, nf = coll.sync()
    except Exception as e:   # noqa
        return Outcome(True, sorted(classes), [("sync_raises_" + type(e).__name__, str(e))])
    if nf:
        return Outcome(True, sorted(classes), [("sync_failed", "")])
    o2 = evaluate(second, _live=(coll, repo))
    f += [(b + "_in_second_report_after_fetch", d) for b, d in o2.findings]
    classes |= set(o2.classes)
    if len(second["tags"]) > len(case["first"]["tags"]):
        classes.add("build_tags_arrive_between_reports")
    if len(second["branches"]) > len(case["first"]["branches"]):
        classes.add("branch_arrives_between_reports")
    return Outcome(True, sorted(classes), f, key=[case["second"]["commits"], case["second"]["tags"], case["first"]["tags"],
                                                  sorted(case["first"]["branches"])])


@st.composite
def st_two_reports(draw):
    second = draw(st_case(max_commits=8))
    second["render"] = False
    first = {k: (list(v) if isinstance(v, list) else dict(v) if isinstance(v, dict) else v) for k, v in second.items()}
    keep = [draw(st.booleans()) for _ in second["tags"]]
    first["tags"] = [t for t, k in zip(second["tags"], keep) if k]
    first["tag_nums"] = [n for n, k in zip(second["tag_nums"], keep) if k]
    if len(second["branches"]) >= 2 and draw(st.integers(0, 2)) == 0:
        gone = draw(st.sampled_from(sorted(second["branches"])))
        first["branches"] = {b: i for b, i in second["branches"].items() if b != gone}
        # tags of a branch that does not exist yet stay (a tag is just a ref)
    return {"first": first, "second": second}


def regression_cases():
    # F4: release/2.0 head (commit 1) is an ancestor of release/1.0 head (commit 2); both commits match
    yield {"commits": [{"parents": [], "msg": "init", "ts": 10}, {"parents": [0], "msg": "BUG-7 a", "ts": 20},
                       {"parents": [1], "msg": "BUG-7 b", "ts": 30}],
           "branches": {"release/1.0": 2, "release/2.0": 1}, "tags": [], "tag_nums": [], "search": "BUG-7", "render": True}


def _parts_extra(k):
    return [Part("two_reports", eval_two_reports, strategy=st_two_reports, examples=4000 * k,
                 note="report, fetch (new tags / a new branch), report again on the same objects")]


def parts(tier):
    if tier == "quick":
        return [Part("regressions", evaluate, enumerate=regression_cases, exhaustive=True),
                Part("histories", evaluate, strategy=st_case, examples=20000)] + _parts_extra(1)
    return [Part("regressions", evaluate, enumerate=regression_cases, exhaustive=True),
            Part("histories", evaluate, strategy=st_case, examples=300000),
            Part("histories_large", evaluate, strategy=lambda: st_case(max_commits=18), examples=100000)] + _parts_extra(30)


TECHNIQUE = "model-based property testing (Hypothesis): generated commit DAGs / heads / tags / messages on an in-memory git back-end, compared with a set-based reference model of the report written from the statement"
LEVEL_TEXT = ("Exploration: ~8k generated histories per quick run (400k thorough, up to 18 commits); for every branch and every matching "
              "commit the placement (earliest containing build, 'not merged', or nowhere), the build labels, the branch order and - for "
              "a quarter of the cases - the printed report are compared with the reference model.")
LEVEL_NOTE = "Trusted: the 30-line reference model, vlib/fakegit.py (in-memory git), Hypothesis."
