"""C08 - CHText behaves exactly like the underlying str (model-based, operation sequences).

Every live value is paired with a model: list of (char, sgr-state). The state of a char
is computed from the *arguments* of the formatter that created it. After every operation
all live values are compared with their models (plain text, len, per-char colours read back
through the independent SGR interpreter) and pairwise equality is compared with model
equality.
"""
from hypothesis import strategies as st

from vlib import sgr
from vlib.core import Outcome, Part
from vlib.guard import call_budget, Diverged

ID = "C08"
RULE = ("operation sequences (4-25 ops) over a pool of live values (str, ColorFmt chunks, CHText): new str / "
        "fmt(str) for 10 formatters (two pairs built from identical arguments) / CHText(*parts incl. lists) / "
        "a+b / str+a / chunk+a (reflected) / a+=b (incl. b is a) / sep.join(items) / a[i] / a[i:j] with bounds in "
        "[-len-3, len+3] or None / fixed_len / format(a, [[fill]align][width][s]) / tail_probe (rejected lookups behind the "
        "end, += of the last chunk's colour, lookups in the new part). Non-trivial = the sequence "
        "contains an index/slice of a text with >=2 colour runs, or a negative/out-of-range bound on such a text, "
        "or a concatenation that merges same-coloured neighbours, or a += a; distinct by hash of the operation list."
        " Also: fill character = the text's own first character; texts repeating one character; join arguments as list / tuple / iterator / generator / map; tail_probe histories (see above).")
ASSUMPTIONS = [
    "colour identity = the SGR state requested from the formatter; formatters meant to be 'the same colour' are built from identical arguments",
    "equality involving a bare *coloured* chunk with empty text is not judged (statement speaks of texts)",
    "aliasing (fixed_len of exact length returns self) is tracked, not flagged; a += [.., a, ..] is not generated",
    "format width without leading zero; only the documented spec grammar [[fill]align][width][s]",
    "an operation needing more than 20000 Python calls inside ak/color.py on texts of <=200 chars is a divergence",
]

FMTS = [
    {"fg": None},
    {"fg": "RED"},
    {"fg": "RED"},                       # same arguments, another instance
    {"fg": "GREEN", "bold": True},
    {"fg": 200},
    {"fg": [1, 2, 3], "bg": "BLUE"},
    {"fg": "g5", "underline": True, "crossed": True},
    {"fg": "RED", "bold": False},        # same colour as RED
    {"fg": "YELLOW", "no_color": True},  # default
    {"fg": None, "bg": 17},
]


def _fmt_state(spec):
    if spec.get("no_color"):
        return sgr.DEFAULT
    eff = frozenset(k for k in ("bold", "faint", "underline", "blink", "crossed") if spec.get(k))
    fg = spec.get("fg")
    bg = spec.get("bg")
    return (sgr.color_index(tuple(fg) if isinstance(fg, list) else fg),
            sgr.color_index(tuple(bg) if isinstance(bg, list) else bg), eff)


def _mkfmt(C, spec):
    kw = {k: v for k, v in spec.items() if k != "fg"}
    if "bg" in kw:
        b = kw.pop("bg")
        kw["bg_color"] = tuple(b) if isinstance(b, list) else b
    fg = spec.get("fg")
    return C.ColorFmt(tuple(fg) if isinstance(fg, list) else fg, **kw)


def runs(m):
    n = 0
    prev = object()
    for _, s in m:
        if s != prev:
            n += 1
            prev = s
    return n


class Ctx:
    def __init__(self, C):
        self.C = C
        self.fmts = [_mkfmt(C, s) for s in FMTS]
        self.states = [_fmt_state(s) for s in FMTS]
        self.vals = []     # python objects
        self.models = []   # list of (char, state)
        self.findings = []
        self.classes = set()
        self.nt = False

    def add(self, obj, model, may_alias=False):
        # alias tracking: same object as an existing one -> share model list object
        for i, o in enumerate(self.vals):
            if o is obj and not isinstance(obj, str):
                if not may_alias and isinstance(obj, self.C.CHText):
                    # only += (in place by definition) and fixed_len of the exact length (ASSUMPTIONS) may hand back an
                    # operand; every other operation gives a new text, as on str: extending the result leaves the operand
                    self.fail("operation_returns_its_operand_instead_of_a_new_text",
                              f"result is value {i} itself; a later += on either changes both")
                self.vals.append(obj)
                self.models.append(self.models[i])
                self.classes.add("alias_returned")
                return
        self.vals.append(obj)
        self.models.append(list(model))

    def fail(self, bucket, detail):
        self.findings.append((bucket, detail))


def plain(m):
    return "".join(c for c, _ in m)


def model_of_str(s):
    return [(c, sgr.DEFAULT) for c in s]


def check_value(ctx, i, opdesc):
    C = ctx.C
    v, m = ctx.vals[i], ctx.models[i]
    if isinstance(v, str):
        return
    try:
        pt = v.plain_text()
        if pt != plain(m):
            ctx.fail("plain_text_differs_from_str_model", f"after {opdesc}: value {i}: {pt!r} != {plain(m)!r}")
            return
        if len(v) != len(m):
            ctx.fail("len_differs", f"after {opdesc}: value {i}: len {len(v)} != {len(m)}")
        s = str(v)
        cells, final, _ = sgr.interpret(s)
        got = [(a, b) for a, b, _ in cells]
        if got != m:
            ctx.fail("char_colors_differ", f"after {opdesc}: value {i}: {s!r} shows {got!r}, model {m!r}")
        if final != sgr.DEFAULT:
            ctx.fail("not_default_at_end", f"after {opdesc}: value {i}: {s!r}")
    except sgr.Malformed as e:
        ctx.fail("malformed_sequence", f"after {opdesc}: value {i}: {e}")


def is_odd_chunk(ctx, v):
    return isinstance(v, ctx.C.CHText.Chunk) and v.text == "" and v.c_prefix != ""


def check_equalities(ctx, opdesc, newest):
    vals, models = ctx.vals, ctx.models
    j = newest
    for i in range(len(vals)):
        a, b = vals[i], vals[j]
        if isinstance(a, str) and isinstance(b, str):
            continue
        if is_odd_chunk(ctx, a) or is_odd_chunk(ctx, b):
            ctx.classes.add("empty_colored_chunk_eq_skipped")
            continue
        want = models[i] == models[j]
        for x, y, tag in ((a, b, "ab"), (b, a, "ba")):
            try:
                got = (x == y)
            except Exception as e:   # noqa
                ctx.fail("eq_raises_" + type(e).__name__, f"after {opdesc}: values {i},{j}: {e}")
                continue
            if bool(got) != want:
                kinds = "%s==%s" % (type(x).__name__, type(y).__name__)
                ctx.fail("equality_disagrees_with_model_" + ("false_negative" if want else "false_positive"),
                         f"after {opdesc}: values {i},{j} ({kinds}): == gives {got}, models "
                         f"{models[i]!r} vs {models[j]!r}")
            try:
                if bool(x != y) == bool(got):
                    ctx.fail("ne_inconsistent_with_eq", f"after {opdesc}: values {i},{j}")
            except Exception:   # noqa
                pass


def norm_slice_bounds(i, j, n):
    return slice(i, j).indices(n)[:2]


def apply_op(ctx, op):
    """Executes one op on the real objects and on the models. Returns a description or None if skipped."""
    C = ctx.C
    kind = op[0]
    vals, models = ctx.vals, ctx.models
    n = len(vals)

    def ref(k):
        return k % n

    def is_txt(o):
        return isinstance(o, (C.CHText, C.CHText.Chunk))

    if kind == "str":
        ctx.add(op[1], model_of_str(op[1]))
        return f"str {op[1]!r}"
    if kind == "bigtext":
        # a text of many chunks (neighbours differ in colour, nothing merges): 65-130 of them
        nch = 65 + op[1] % 66
        f1, f2 = op[2] % len(FMTS), (op[2] + 1 + op[3] % (len(FMTS) - 1)) % len(FMTS)
        parts, model = [], []
        for k in range(nch):
            fi = f1 if k % 2 == 0 else f2
            t = "ab"[k % 2] * (1 + k % 2)
            parts.append(ctx.fmts[fi](t))
            model += [(c, ctx.states[fi]) for c in t]
        if ctx.states[f1] == ctx.states[f2]:
            return None
        ctx.add(C.CHText(*parts), model)
        ctx.classes.add("text_of_more_than_64_chunks")
        return f"bigtext {nch} chunks"
    if kind == "chunk":
        fi = op[1] % len(FMTS)
        ctx.add(ctx.fmts[fi](op[2]), [(c, ctx.states[fi]) for c in op[2]])
        return f"fmt{fi}({op[2]!r})"
    if n == 0:
        return None
    if kind == "new":
        parts, model = [], []
        for p in op[1]:
            if isinstance(p, list):
                idxs = [ref(k) for k in p]
                parts.append([vals[k] for k in idxs])
                for k in idxs:
                    model += models[k]
            else:
                parts.append(vals[ref(p)])
                model += models[ref(p)]
        if any(isinstance(p, list) for p in op[1]):
            ctx.classes.add("construct_with_list_part")
        ctx.add(C.CHText(*parts), model)
        return f"CHText(*{op[1]!r})"
    if kind == "add":
        a, b = ref(op[1]), ref(op[2])
        if not is_txt(vals[a]) and not is_txt(vals[b]):
            return None
        if not is_txt(vals[a]):
            ctx.classes.add("reflected_add")
        if models[a] and models[b] and models[a][-1][1] == models[b][0][1]:
            ctx.classes.add("merge_same_color_neighbours")
            ctx.nt = True
        ctx.add(vals[a] + vals[b], models[a] + models[b])
        return f"v{a} + v{b}"
    if kind == "iadd":
        a = ref(op[1])
        if not is_txt(vals[a]):
            return None
        if isinstance(op[2], list):
            idxs = [ref(k) for k in op[2] if vals[ref(k)] is not vals[a]]
            other = [vals[k] for k in idxs]
            addm = [x for k in idxs for x in models[k]]
            desc = f"v{a} += [{', '.join('v%d' % k for k in idxs)}]"
            ctx.classes.add("iadd_list")
        else:
            b = ref(op[2])
            other = vals[b]
            addm = list(models[b])
            desc = f"v{a} += v{b}"
            if other is vals[a]:
                ctx.classes.add("iadd_self")
                if runs(models[a]) >= 2:
                    ctx.classes.add("iadd_self_multichunk")
                    ctx.nt = True
        if models[a] and addm and models[a][-1][1] == addm[0][1]:
            ctx.classes.add("merge_same_color_neighbours")
            ctx.nt = True
        target = vals[a]
        was_text = isinstance(target, C.CHText)
        target += other
        if was_text and target is vals[a]:
            # in-place: every alias sees it
            m = models[a]
            m.extend(addm)
            ctx.add(target, m, may_alias=True)   # alias entry
        else:
            ctx.add(target, models[a] + addm)
        return desc
    if kind == "join":
        s = ref(op[1])
        if not is_txt(vals[s]):
            return None
        idxs = [ref(k) for k in op[2]]
        model = []
        for t, k in enumerate(idxs):
            if t:
                model += models[s]
            model += models[k]
        items = [vals[k] for k in idxs]
        form = op[3] if len(op) > 3 else "list"
        arg = {"list": lambda: items, "tuple": lambda: tuple(items), "iter": lambda: iter(items),
               "gen": lambda: (x for x in items), "map": lambda: map(lambda x: x, items)}[form]()
        ctx.add(vals[s].join(arg), model)
        ctx.classes.add("join")
        if form != "list":
            ctx.classes.add("join_argument_is_" + form)
        if isinstance(vals[s], C.CHText.Chunk):
            ctx.classes.add("join_separator_is_chunk")
        return f"v{s}.join({idxs})"
    if kind == "tail_probe":
        # a history on ONE text: lookups at / behind its end (rejected or empty), then an in-place extension by text of the
        # colour of its last character (merges into the last chunk), then lookups inside the new part
        a = ref(op[1])
        v, m = vals[a], models[a]
        if not isinstance(v, C.CHText):
            return None
        L = len(m)
        try:
            got = v[L + op[2] % 3]
            ctx.fail("index_out_of_range_accepted", f"v{a}[{L + op[2] % 3}] with len {L} -> {got!r}")
        except IndexError:
            pass
        if op[2] % 2:
            ctx.add(v[L:L + 3], [])
        txt = op[3] or "zz"
        last = m[-1][1] if m else sgr.DEFAULT
        fi = next((k for k, st_ in enumerate(ctx.states) if st_ == last), None)
        v += (txt if fi is None or last == sgr.DEFAULT else ctx.fmts[fi](txt))
        if v is not vals[a]:
            ctx.fail("in_place_extension_returns_another_object", f"v{a} += ...")
            return f"tail_probe v{a}"
        m.extend((c, last) for c in txt)
        ctx.add(v[L], [m[L]])
        ctx.add(v[L:], m[L:])
        ctx.add(v[-1], [m[-1]])
        ctx.add(v.fixed_len(L + 1), m[:L + 1], may_alias=(len(m) == L + 1))
        ctx.classes.add("lookups_around_an_in_place_extension_of_the_last_chunk")
        ctx.nt = True
        return f"tail_probe v{a} += {txt!r}"
    if kind in ("index", "slice", "fixed_len", "format"):
        a = ref(op[1])
        if not is_txt(vals[a]):
            return None
        m = models[a]
        L = len(m)
        multi = runs(m) >= 2
        if kind == "index":
            i = op[2] % (2 * L + 7) - (L + 3)
            try:
                want = m[i]
                want_err = False
            except IndexError:
                want_err = True
            if multi:
                ctx.nt = True
                ctx.classes.add("index_multichunk")
            try:
                got = vals[a][i]
            except IndexError:
                if not want_err:
                    ctx.fail("index_raises_in_range", f"v{a}[{i}] with len {L}")
                return f"v{a}[{i}] -> IndexError"
            if want_err:
                ctx.fail("index_out_of_range_accepted", f"v{a}[{i}] with len {L} -> {got!r}")
                return f"v{a}[{i}]"
            ctx.add(got, [want])
            return f"v{a}[{i}]"
        if kind == "slice":
            def bound(x):
                return None if x is None else x % (2 * L + 7) - (L + 3)
            i, j = bound(op[2]), bound(op[3])
            if multi:
                ctx.nt = True
                ctx.classes.add("slice_multichunk")
                if any(b is not None and (b < 0 or b > L) for b in (i, j)):
                    ctx.classes.add("neg_or_out_of_range_bound_multichunk")
                # boundary landing
                pos = [k for k in range(1, L) if m[k][1] != m[k - 1][1]]
                ni, nj = norm_slice_bounds(i, j, L)
                if ni in pos or nj in pos:
                    ctx.classes.add("slice_on_chunk_boundary")
            ctx.add(vals[a][i:j], m[i:j])
            return f"v{a}[{i}:{j}]"
        if kind == "fixed_len":
            k = op[2] % (L + 6)
            ctx.add(vals[a].fixed_len(k), (m + model_of_str(" " * k))[:k], may_alias=(k == L))
            ctx.classes.add("fixed_len_" + ("cut" if k < L else "same" if k == L else "pad"))
            return f"v{a}.fixed_len({k})"
        if kind == "format":
            fill, align, width, typ = op[2]
            if fill == "text0":
                # the fill character is the text's own first character (a rule drawn with '-', blanks padded with blanks)
                fill = plain(m)[:1] if plain(m)[:1] not in ("", "\n") else "-"
                ctx.classes.add("format_fill_is_a_character_of_the_text")
            spec = ""
            if align:
                spec += (fill or "") + align
            if width is not None:
                w = width % (L + 9)
                if w > 0:                  # no zero width / leading zero
                    spec += str(w)
            spec += typ
            text = plain(m)
            want_plain = format(text, spec)
            got = format(vals[a], spec)
            try:
                cells, final, _ = sgr.interpret(got)
            except sgr.Malformed as e:
                ctx.fail("malformed_sequence", f"format(v{a}, {spec!r}): {e}")
                return f"format(v{a}, {spec!r})"
            gp = "".join(c[0] for c in cells)
            if gp != want_plain:
                ctx.fail("format_differs_from_str_format", f"format(v{a}, {spec!r}) -> {gp!r}, str gives {want_plain!r}")
            else:
                pad = len(want_plain) - L
                al = align or "<"
                off = 0 if al == "<" else pad if al == ">" else pad // 2
                exp = model_of_str(want_plain[:off]) + m + model_of_str(want_plain[off + L:])
                if [(x, y) for x, y, _ in cells] != exp:
                    ctx.fail("format_changes_colors", f"format(v{a}, {spec!r}) -> {got!r}")
                if pad > 0:
                    ctx.classes.add("format_pad_" + {"<": "left", ">": "right", "^": "center"}[al])
            if final != sgr.DEFAULT:
                ctx.fail("not_default_at_end", f"format(v{a}, {spec!r}) -> {got!r}")
            return f"format(v{a}, {spec!r})"
    raise ValueError(f"unknown op {op!r}")


def evaluate(case):
    import ak.color as C
    ctx = Ctx(C)
    nops = 0
    for op in case["ops"]:
        if len(ctx.vals) >= 14 and op[0] in ("str", "chunk", "new", "add", "join", "index", "slice", "fixed_len", "tail_probe", "bigtext"):
            # pool full: recycle - drop the oldest value
            ctx.vals.pop(0)
            ctx.models.pop(0)
        before = len(ctx.vals)
        try:
            with call_budget(20000, "ak/color.py"):
                desc = apply_op(ctx, op)
        except Diverged as e:
            ctx.fail("operation_diverges_" + op[0] + ("_self" if "iadd_self" in ctx.classes else ""),
                     f"{op!r}: {e}")
            break
        except Exception as e:   # noqa
            ctx.fail("operation_raises_%s_%s" % (op[0], type(e).__name__), f"{op!r}: {type(e).__name__}: {e}")
            break
        if desc is None:
            continue
        nops += 1
        try:
            with call_budget(200000, "ak/color.py"):
                for i in range(len(ctx.vals)):
                    check_value(ctx, i, desc)
                if len(ctx.vals) > before or op[0] == "iadd":
                    check_equalities(ctx, desc, len(ctx.vals) - 1)
        except Diverged as e:
            ctx.fail("observer_diverges", f"after {desc}: {e}")
            break
        if ctx.findings:
            break
    ctx.classes.add("ops_%02d" % min(nops, 25))
    return Outcome(ctx.nt, sorted(ctx.classes), ctx.findings, key=case["ops"], evals=nops)


# ---------------------------------------------------------------------------

ALPHABET = "abcXYZ 01|é世\n"


def st_text():
    return st.text(ALPHABET, max_size=5) | st.text(ALPHABET, max_size=5) | \
        st.tuples(st.sampled_from(" 0é-_*|"), st.integers(1, 4)).map(lambda t: t[0] * t[1])


def st_ops():
    idx = st.integers(0, 40)
    opt = st.none() | st.integers(0, 60)
    fill = st.sampled_from(["", "_", "*", "<", ">", "^", "0", "5", " ", "s", "é", "{", "text0", "text0"])
    op = st.one_of(
        st.tuples(st.just("str"), st_text()),
        st.tuples(st.just("chunk"), st.integers(0, len(FMTS) - 1), st_text()),
        st.tuples(st.just("chunk"), st.integers(0, len(FMTS) - 1), st_text()),
        st.tuples(st.just("new"), st.lists(idx | st.lists(idx, max_size=3), max_size=4)),
        st.tuples(st.just("add"), idx, idx),
        st.tuples(st.just("add"), idx, idx),
        st.tuples(st.just("iadd"), idx, idx | st.lists(idx, max_size=3)),
        st.tuples(st.just("iadd"), idx, idx),
        st.tuples(st.just("join"), idx, st.lists(idx, max_size=4), st.sampled_from(["list", "list", "tuple", "iter", "gen", "map"])),
        st.tuples(st.just("index"), idx, st.integers(0, 60)),
        st.tuples(st.just("slice"), idx, opt, opt),
        st.tuples(st.just("slice"), idx, opt, opt),
        st.tuples(st.just("fixed_len"), idx, st.integers(0, 40)),
        st.tuples(st.just("tail_probe"), idx, st.integers(0, 5), st.text("ab 0", max_size=3)),
        st.tuples(st.just("tail_probe"), st.just(-1), st.integers(0, 5), st.text("ab 0", max_size=3)),
        st.tuples(st.just("format"), idx,
                  st.tuples(fill, st.sampled_from(["", "<", ">", "^"]), st.none() | st.integers(1, 40),
                            st.sampled_from(["", "", "s"]))),
    )
    start = st.tuples(st.just("chunk"), st.integers(1, len(FMTS) - 1), st.text("abc", min_size=1, max_size=3))
    def tolist(x):
        return [tolist(i) for i in x] if isinstance(x, (tuple, list)) else x
    big = st.tuples(st.just("bigtext"), st.integers(0, 65), st.integers(0, 9), st.integers(0, 9))
    return st.builds(lambda a, b, c, rest, bg, pos: {"ops": tolist(
        [a, b, ["add", 0, 1], c] + (rest[:pos % (len(rest) + 1)] + [bg] + rest[pos % (len(rest) + 1):] if bg is not None else rest))},
                     start, start, op, st.lists(op, min_size=1, max_size=22), st.none() | st.none() | st.none() | big, st.integers(0, 22))


def regression_cases():
    # F5: x = CHText(red("ab"), "cd"); x += x
    yield {"ops": [["chunk", 1, "ab"], ["str", "cd"], ["new", [0, 1]], ["iadd", 2, 2]]}
    yield {"ops": [["chunk", 1, "ab"], ["chunk", 4, "cd"], ["add", 0, 1], ["iadd", 2, 2], ["iadd", 2, 2]]}


def parts(tier):
    k = 1 if tier == "quick" else 40
    return [
        Part("regressions", evaluate, enumerate=regression_cases, exhaustive=True),
        Part("op_sequences", evaluate, strategy=st_ops, examples=12000 * k),
    ]


TECHNIQUE = "model-based testing: Hypothesis-generated operation sequences against a per-character (char, colour) list model and plain-str semantics, colours read back through an independent SGR interpreter"
LEVEL_TEXT = ("Exploration: ~12k generated operation sequences per quick run (hundreds of thousands thorough), every live value "
              "compared with its str/colour model after every step and pairwise equality compared with model equality. "
              "Right level: the property quantifies over unbounded operation sequences; a reference model makes each sequence "
              "decidable, bounds are on sequence length (<=26) and text length.")
LEVEL_NOTE = "Trusted: the list model (Python str/list semantics), vlib/sgr.py, the call-budget hang guard. See ASSUMPTIONS for excluded corner cases."
