"""C11 - pretty-printed JSON-like data reads back as the same data.

Oracle: json.loads / ast.literal_eval round trip with type-strict equality and key order.
Cases are encoded values: ["d", [[key, value], ...]] | ["l", [value, ...]] | scalar.
"""
import ast
import json

from hypothesis import strategies as st

from vlib.core import Outcome, Part

ID = "C11"
RULE = ("recursive JSON-like values (dict with str keys - Python mode also int keys -, list, str without quote / "
        "backslash / control / line-separator chars, ints of any size, finite floats, bools, None, empty "
        "containers, depth <= 5) plus threshold-directed builders: containers of simple values whose one-line "
        "length is forced into 180..220 at nesting offsets 0..14, simple lists whose lines cross the 150-char wrap "
        "limit with element sizes 1..170, one over-long element, dicts mixing simple and compound values. "
        "Non-trivial = the value contains a simple container whose one-line length + offset lies in 190..210, or a "
        "simple list rendered over several lines; distinct by (mode, value) hash."
        " Also: the result object observed (repr, len, ==, +, slice, format ...) before its text is taken; both results requested before either is rendered. Part text_twins: flat lists (at offsets 0-6, sometimes long enough to wrap) in which strings spell exactly what other items of the same list print as (101 next to '101', None next to 'None' / 'null', [] next to '[]'), in any order.")
ASSUMPTIONS = [
    "NaN / +-inf are excluded (no JSON form; NaN != NaN)",
    "strings contain no '\"', backslash, control (Cc), surrogate, or line/paragraph separator characters",
    "mixed-type dict keys (Python mode): only 'int keys ascending' and 'str keys ascending' are required, not their mutual order",
    "float dict keys, bool keys and tuples are not generated",
]


def decode(e, shared=None):
    """shared: dict used to hand out ONE object for all equal sub-structures (the value then holds the same dict / list
    object at several places - not a cycle)"""
    if isinstance(e, list):
        key = None
        if shared is not None:
            key = json.dumps(e, sort_keys=True, default=str)
            if key in shared:
                return shared[key]
        if e[0] == "d":
            out = {k: decode(v, shared) for k, v in e[1]}
        else:
            out = [decode(v, shared) for v in e[1]]
        if shared is not None:
            shared[key] = out
        return out
    return e


class _ListSub(list):
    pass


def to_sub(v, mode):
    """the same data in containers that are subclasses of dict / list (OrderedDict from json.loads(object_pairs_hook=...),
    defaultdict, a list subclass): still dicts and lists of the same items"""
    import collections
    if isinstance(v, dict):
        items = [(k, to_sub(x, mode)) for k, x in v.items()]
        if mode == 1:
            return collections.OrderedDict(items)
        d = collections.defaultdict(list)
        d.update(items)
        return d
    if isinstance(v, list):
        return _ListSub(to_sub(x, mode) for x in v)
    return v


def strict_eq(a, b):
    if type(a) is not type(b):
        return False
    if isinstance(a, dict):
        return a.keys() == b.keys() and all(strict_eq(a[k], b[k]) for k in a) and \
            all(type(x) is type(y) for x, y in zip(sorted(a, key=repr), sorted(b, key=repr)))
    if isinstance(a, list):
        return len(a) == len(b) and all(strict_eq(x, y) for x, y in zip(a, b))
    if isinstance(a, float):
        return a == b and str(a) == str(b)
    return a == b


def key_orders_ok(v):
    """v was parsed keeping source order (dicts preserve insertion order)."""
    if isinstance(v, dict):
        ks = list(v.keys())
        sk = [k for k in ks if isinstance(k, str)]
        ik = [k for k in ks if isinstance(k, int)]
        if sk != sorted(sk) or ik != sorted(ik):
            return False
        return all(key_orders_ok(x) for x in v.values())
    if isinstance(v, list):
        return all(key_orders_ok(x) for x in v)
    return True


def is_simple(v):
    return not (isinstance(v, (list, dict)) and v)


def approx_len(v):
    if isinstance(v, dict):
        return 2 + sum(len(_s(k)) + 2 + len(_s(x)) for k, x in v.items()) + 2 * max(0, len(v) - 1)
    return 2 + sum(len(_s(x)) for x in v) + 2 * max(0, len(v) - 1)


def _s(x):
    if isinstance(x, str):
        return '"' + x + '"'
    if isinstance(x, (dict, list)):
        return "{}" if isinstance(x, dict) else "[]"
    return str(x)


def scan(v, offset, info):
    if isinstance(v, (dict, list)) and v:
        vals = list(v.values()) if isinstance(v, dict) else v
        if all(is_simple(x) for x in vals):
            n = approx_len(v) + offset
            if 190 <= n <= 210:
                info.add("near_200_threshold")
                info.add("near_200_offset_%02d" % offset)
            if n >= 200:
                info.add("multiline_simple_" + ("dict" if isinstance(v, dict) else "list"))
                if isinstance(v, list):
                    lens = [len(_s(x)) for x in v]
                    if max(lens) > 150:
                        info.add("element_longer_than_wrap_limit")
        else:
            info.add("compound_container")
            if isinstance(v, dict) and any(is_simple(x) for x in vals):
                info.add("dict_mixing_simple_and_compound")
        for x in vals:
            scan(x, offset + 2, info)
    elif isinstance(v, (dict, list)):
        info.add("empty_container")


_PRINTERS = {}
_ABANDONED = []


def evaluate(case):
    import ak.ppobj as P
    mode = case["mode"]
    value = decode(case["value"], {} if case.get("share") else None)
    f = []
    info = set([mode])
    if case.get("share"):
        info.add("equal_substructures_are_one_object")
    scan(value, 0, info)
    plain_value = value
    if case.get("subcls"):
        value = to_sub(value, case["subcls"])
        info.add("containers_are_dict_and_list_subclasses")
    try:
        # one long-lived printer per mode (the way the package itself uses pp / PPWrap._PPRINTER); the same
        # value is first rendered with the default colours, then without: the no-colour text must not care
        printer = _PRINTERS.get(mode)
        if printer is None or _PRINTERS.get("mod") is not P:
            _PRINTERS["mod"] = P
            _PRINTERS["json"] = P.PrettyPrinter(fmt_json=True)
            _PRINTERS["py"] = P.pp
            printer = _PRINTERS[mode]
        if case.get("abandon") is not None:
            # the same long-lived printer first fails on / is abandoned in the middle of a print of the same containers:
            # a set inside the value makes the print raise; a broken-off line iteration leaves a generator behind
            try:
                if case["abandon"] == 0 and isinstance(value, (list, dict)) and value:
                    bad = ([value, {1, 2}] if isinstance(value, list) else {"v": value, "s": {1, 2}})
                    str(printer(bad, no_color=True))
                else:
                    it = iter(printer([value, [value, 0]] if case["abandon"] == 1 else value, no_color=True))
                    next(it, None)
                    if case["abandon"] == 2:
                        del it
                    else:
                        _ABANDONED.append(it)
                        del _ABANDONED[:-3]
            except Exception:   # noqa
                pass
            info.add("print_failed_or_abandoned_before")
        lazy = case.get("lazy") or 0
        if lazy:
            # results are lazy: both are requested first and rendered afterwards (coloured one first, or second)
            c_res = printer(value)
            res = printer(value, no_color=True)
            if lazy == 1:
                colored = str(c_res)
            info.add("both_results_requested_before_either_is_rendered")
        elif case.get("colored_first", True):
            colored = str(printer(value))
            res = printer(value, no_color=True)
        else:
            colored = None
            res = printer(value, no_color=True)
        for ob in case.get("observe") or []:
            # looking at the result object (what a console echo, a debugger, a log statement or a caller that builds a
            # larger text out of it does) before its text is taken does not change that text
            if ob == "repr":
                repr(res)
            elif ob == "len":
                len(res)
            elif ob == "eq":
                res == res      # noqa
            elif ob == "add":
                (res + " tail") + " more"
            elif ob == "radd":
                "head " + res
            elif ob == "copy_extended":
                c = res.get_ch_text()
                c += " tail"
            elif ob == "slice":
                x = res[0:]
                x += " tail"
            elif ob == "format":
                format(res, "<3")
            elif ob == "fixed_len":
                res.fixed_len(len(res) + 2)        # (of exact length it may be the text itself: C08 ASSUMPTIONS; not extended)
            info.add("result_object_observed_before_use")
        text = str(res)
        if lazy == 2:
            colored = str(c_res)
        lines = [ln.plain_text() for ln in printer(value, no_color=True)]
        # the same, but every line object is kept and only looked at after the iteration is over
        kept = list(printer(value, no_color=True))
        lines_kept = [P.CHText(ln).plain_text() for ln in kept]
        if colored is not None and P.CHText.strip_colors(colored) != text:
            f.append(("colored_output_differs_from_no_color_output", f"{colored[:200]!r} vs {text[:200]!r}"))
    except Exception as e:   # noqa
        return Outcome(True, sorted(info), [("printer_raises_" + type(e).__name__, f"{e}")])
    if "\n".join(lines) != text:
        f.append(("lines_differ_from_whole_text", f"{text!r} vs lines {lines!r}"))
    elif lines_kept != lines:
        f.append(("lines_collected_first_differ_from_whole_text", f"{text[:300]!r} vs lines {lines_kept[:8]!r}"))
    if "\x1b" in text:
        f.append(("escape_in_no_color_output", repr(text[:200])))
    try:
        if mode == "json":
            back = json.loads(text)
            ordered = json.loads(text, object_pairs_hook=lambda ps: ("D", ps))
        else:
            back = ast.literal_eval(text)
            ordered = None
    except Exception as e:   # noqa
        f.append(("output_does_not_parse_" + mode, f"{type(e).__name__}: {e}; text={text[:300]!r}"))
        back = None
    else:
        if not strict_eq(back, plain_value):
            f.append(("readback_differs_" + mode, f"text={text[:400]!r}"))
        elif mode == "py":
            if not key_orders_ok(back):
                f.append(("keys_not_sorted", f"text={text[:400]!r}"))
        else:
            def chk(o):
                if isinstance(o, tuple):
                    ks = [k for k, _ in o[1]]
                    return ks == sorted(ks) and len(set(ks)) == len(ks) and all(chk(x) for _, x in o[1])
                if isinstance(o, list):
                    return all(chk(x) for x in o)
                return True
            if not chk(ordered):
                f.append(("keys_not_sorted", f"text={text[:400]!r}"))
    if len(lines) > 1:
        info.add("multi_line_output")
    nt = "near_200_threshold" in info or "multiline_simple_list" in info
    return Outcome(nt, sorted(info), f, key=[mode, case["value"]])


# ---------------------------------------------------------------------------

def st_str(max_size=12):
    chars = st.characters(blacklist_categories=["Cc", "Cs", "Zl", "Zp"], blacklist_characters='"\\')
    return st.text(chars, max_size=max_size) | st.text("ab ,:[]{}'", max_size=max_size)


def st_scalar():
    return st.one_of(
        st.none(), st.booleans(), st.integers(-10**6, 10**6), st.integers(),
        st.floats(allow_nan=False, allow_infinity=False), st_str(),
        st.just(["d", []]), st.just(["l", []]))


def st_keys(mode):
    if mode == "json":
        return st_str(6)
    return st_str(6) | st.integers(-50, 50)


def st_value(mode, depth=4):
    def extend(children):
        return st.one_of(
            st.lists(children, max_size=5).map(lambda xs: ["l", xs]),
            st.lists(st.tuples(st_keys(mode), children), max_size=5,
                     unique_by=lambda kv: (type(kv[0]).__name__, kv[0])).map(
                lambda kvs: ["d", [list(kv) for kv in kvs]]))
    return st.recursive(st_scalar(), extend, max_leaves=25)


def wrap(inner, wrappers):
    """nest `inner` inside the given list of wrappers ('l' or 'd'), giving offset 2*len(wrappers)"""
    v = inner
    for w in wrappers:
        v = ["l", [1, v]] if w == "l" else ["d", [["k", v], ["a", 0]]]
    return v


@st.composite
def st_threshold(draw, mode):
    wrappers = draw(st.lists(st.sampled_from("ld"), max_size=7))
    offset = 2 * len(wrappers)
    target = draw(st.integers(180, 220))
    kind = draw(st.sampled_from(["l", "d"]))
    items = draw(st.lists(st.one_of(st.integers(-10**5, 10**5), st.booleans(), st.none(),
                                    st.text("abcdefgh ", max_size=30),
                                    st.floats(-1e6, 1e6, allow_nan=False)), min_size=1, max_size=8))
    if kind == "d":
        pairs = [["k%02d" % i, it] for i, it in enumerate(items)]
        # the padding entry sorts behind the first m entries: the text up to and including it has the target length, the
        # remaining entries follow (m == len(pairs): the whole dict has the target length)
        m = draw(st.sampled_from([len(pairs), len(pairs), draw(st.integers(1, len(pairs)))]))
        head = pairs[:m]
        pad_key = "k%02dz" % (m - 1)
        cur = approx_len(decode(["d", head])) + offset
        padlen = target - cur - (len('"%s": ""' % pad_key) + 2)
        if padlen >= 0:
            pairs = head + [[pad_key, "x" * padlen]] + pairs[m:]
        inner = ["d", pairs]
    else:
        cur = approx_len(items) + offset
        padlen = target - cur - 4
        if padlen >= 0:
            items = items + ["x" * padlen]
        inner = ["l", items]
    return wrap(inner, wrappers)


@st.composite
def st_wraplist(draw, mode):
    wrappers = draw(st.lists(st.sampled_from("ld"), max_size=5))
    size = draw(st.integers(1, 170))
    n = draw(st.integers(1, max(2, 700 // (size + 2))))
    jitter = draw(st.lists(st.integers(-3, 3), min_size=n, max_size=n))
    kind = draw(st.sampled_from(["str", "int", "mix", "scalars"]))
    items = []
    if kind == "scalars":
        # long lists of short scalars of mixed types (numbers next to booleans and None)
        pool = draw(st.sampled_from([["i", "b"], ["i", "f", "b"], ["i", "f"], ["i", "b", "n"], ["b"], ["i", "f", "b", "n", "s"]]))
        for _ in range(draw(st.integers(1, 60))):
            k = draw(st.sampled_from(pool))
            items.append({"i": draw(st.integers(-999, 99999)), "f": draw(st.floats(-1e3, 1e3, allow_nan=False)),
                          "b": draw(st.booleans()), "n": None, "s": draw(st.text("ab", max_size=3))}[k])
        return wrap(["l", items], wrappers)
    for i, j in enumerate(jitter):
        ln = max(1, size + j)
        if kind == "int" or (kind == "mix" and i % 2):
            items.append(int("1" + "0" * (ln - 1)) + i if ln < 60 else "y" * max(0, ln - 2))
        else:
            items.append("x" * max(0, ln - 2))
    if draw(st.booleans()):
        items.insert(draw(st.integers(0, len(items))), "L" * draw(st.integers(140, 260)))
    return wrap(["l", items], wrappers)


def st_repeated(mode):
    """a sub-structure that occurs at several places of the value"""
    small = st.one_of(
        st.lists(st.tuples(st.sampled_from(["x", "y", "k"]), st.integers(0, 3) | st.none() | st.text("ab", max_size=3)), min_size=1,
                 max_size=3, unique_by=lambda kv: kv[0]).map(lambda kv: ["d", [list(p) for p in kv]]),
        st.lists(st.integers(0, 9) | st.booleans(), min_size=1, max_size=4).map(lambda x: ["l", x]),
        st_threshold(mode))
    def build(sub, other, shape):
        if shape == 0:
            return ["l", [sub, other, sub]]
        if shape == 1:
            return ["d", [["a", sub], ["b", sub], ["c", other]]]
        return ["l", [["d", [["k", sub]]], sub, ["l", [sub, 1]]]]
    return st.builds(build, small, st_scalar() | small, st.integers(0, 2))


@st.composite
def st_text_twins(draw, mode):
    """a flat list of simple items in which strings spell exactly what other items of the same list print as
    (101 next to "101", None next to "None" / "null", [] next to "[]"), in any order, at any offset"""
    import json as _json
    wrappers = draw(st.lists(st.sampled_from("ld"), max_size=3))
    base = draw(st.lists(st.one_of(st.none(), st.booleans(), st.integers(-1000, 1000), st.integers(),
                                   st.floats(-100, 100, allow_nan=False), st.just(["l", []]), st.just(["d", []]),
                                   st.text("ab1", max_size=3)), min_size=1, max_size=7))
    items = []
    for b in base:
        if isinstance(b, list):
            texts = ["[]" if b[0] == "l" else "{}"]
        elif isinstance(b, str):
            texts = [repr(b), b + " "]          # (strings of the domain hold no double quote: json.dumps(b) is left out)
        else:
            texts = [str(b), _json.dumps(b), repr(b)]
        tw = draw(st.sampled_from(texts))
        k = draw(st.integers(0, 4))
        items += [b] if k == 0 else [b, tw] if k in (1, 2) else [tw, b]
    if draw(st.booleans()):
        items = list(draw(st.permutations(items)))
    if draw(st.integers(0, 3)) == 0:
        # long enough to be wrapped
        items = items * draw(st.integers(8, 30))
    return wrap(["l", items], wrappers)


def st_case(values=None):
    def for_mode(mode):
        return (values(mode) if values is not None else
                st.one_of(st_value(mode), st_value(mode), st_threshold(mode), st_threshold(mode),
                          st_wraplist(mode), st_repeated(mode))).flatmap(
            lambda v: st.booleans().map(lambda sh: {"mode": mode, "value": v, "share": sh}).flatmap(
                lambda c: st.sampled_from([None, None, 0, 1, 2, 3]).map(lambda a: dict(c, abandon=a))).flatmap(
                lambda c: (st.just([]) | st.just([]) | st.lists(st.sampled_from(
                    ["repr", "len", "eq", "add", "radd", "copy_extended", "slice", "format", "fixed_len"]), min_size=1, max_size=3)
                ).map(lambda o: dict(c, observe=o))).flatmap(
                lambda c: st.sampled_from([0, 0, 0, 1, 2]).map(lambda z: dict(c, lazy=z))).flatmap(
                lambda c: st.sampled_from([0, 0, 0, 0, 1, 2]).map(lambda z: dict(c, subcls=z))))
    return st.sampled_from(["json", "py"]).flatmap(for_mode)


def parts(tier):
    k = 1 if tier == "quick" else 50
    return [Part("values", evaluate, strategy=st_case, examples=10000 * k),
            Part("text_twins", evaluate, strategy=lambda: st_case(st_text_twins), examples=1500 * k,
                 note="flat lists where strings spell what other items of the list print as")]


TECHNIQUE = "round-trip property-based testing (Hypothesis): json.loads / ast.literal_eval of the no-colour output against the generated value, threshold-directed generators for the 200-column and 150-column wrap rules"
LEVEL_TEXT = ("Exploration: ~10k generated values per quick run (500k thorough), half of them built to land within +-20 columns of "
              "the one-line/multi-line threshold at nesting offsets 0..14 or to cross the per-line wrap limit with every element "
              "size; each output is parsed back by an independent parser and compared type-strictly, key order included.")
LEVEL_NOTE = "Trusted: stdlib json and ast.literal_eval as readers; Hypothesis. Value domain restrictions listed in ASSUMPTIONS."
