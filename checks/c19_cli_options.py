"""C19 - command options are inherited exactly along the declared command graph.

Oracle: reflexive-transitive closure of the declared parent relation.
"""
import contextlib
import io

from hypothesis import strategies as st

from vlib.core import Outcome, Part

ID = "C19"
RULE = ("command lists of 1-7 entries, each naming any subset of *earlier* entries as parents (chains, forests, "
        "diamonds, redundant ancestors), some internal ('!name'), help as str or (help, descr), explicit or implicit "
        "default command; 0-8 uniquely named equal-length flags --opt-xx each added to one command parser, one internal "
        "option set or the ArgParser itself in generated order; every (command, flag) pair is parsed (exhaustive per "
        "configuration) plus default-command vectors (empty, option first, and - with an optional '*' positional on every command - "
        "a first word that is no command name: '-', '--', 'h', 'help', '', ...) and the standard -v / --color / --no-color options. Non-trivial = "
        "graph has a node with >=2 parents or a chain of depth >=3; distinct by (graph, assignment)."
        " Also: a second switch of the same parser writing to a destination in use (--no-X with X's dest, dest='verbose'); the vector given as list / tuple / through sys.argv; the caller's list must come back unchanged."
        " An option with dest 'command' (-c/--command); the result of an earlier call handed back as namespace=.")
ASSUMPTIONS = [
    "each flag is added to exactly one parser (adding one flag twice along a path is an argparse conflict by design)",
    "internal '!' names are not used as commands on the command line",
    "only acceptance/rejection (SystemExit(2)) and the resulting attribute are judged, not help output",
]


def closure(cmds):
    anc = []
    for i, c in enumerate(cmds):
        s = {i}
        for p in c["parents"]:
            s |= anc[p]
        anc.append(s)
    return anc


def depth(cmds):
    d = []
    for c in cmds:
        d.append(1 + max([d[p] for p in c["parents"]], default=0))
    return max(d)


def decl(cmds, i, spaced):
    c = cmds[i]
    s = ("!" if c["internal"] else "") + c["name"]
    if c["parents"]:
        sep = " , " if spaced else ","
        s += ":" + sep.join(cmds[p]["name"] for p in c["parents"])
    attrs = ("help " + c["name"], "descr " + c["name"]) if c.get("help2") else "help " + c["name"]
    return (s, attrs)


def evaluate(case):
    import ak.cli_tools as T
    cmds = case["cmds"]
    f = []
    anc = closure(cmds)
    classes = set()
    if any(len(c["parents"]) >= 2 for c in cmds):
        classes.add("multi_parent")
        # diamond: two parents sharing an ancestor, or a parent that is an ancestor of another parent
        for i, c in enumerate(cmds):
            ps = c["parents"]
            for a in ps:
                for b in ps:
                    if a < b and (anc[a] & anc[b]):
                        classes.add("diamond_or_redundant_ancestor")
    dp = depth(cmds)
    classes.add("depth_%d" % min(dp, 4))
    if any(c["internal"] for c in cmds):
        classes.add("internal_option_set")
    nt = "multi_parent" in classes or dp >= 3
    key = [[c["internal"], c["parents"]] for c in cmds] + [[o["target"] for o in case["opts"]]]
    publics = [i for i, c in enumerate(cmds) if not c["internal"]]
    dflt = case.get("default")
    kwargs = {}
    if dflt is not None:
        kwargs["default_command"] = cmds[dflt]["name"]
    try:
        with contextlib.redirect_stderr(io.StringIO()):
            decls = [decl(cmds, i, case.get("spaced")) for i in range(len(cmds))]
            form = case.get("commands_as", "list")
            if form != "list":
                classes.add("commands_given_as_" + form)
            ap = T.ArgParser(commands=(iter(decls) if form == "iterator" else tuple(decls) if form == "tuple" else decls), **kwargs)
    except BaseException as e:   # noqa
        return Outcome(nt, sorted(classes),
                       [("constructor_raises_%s" % type(e).__name__, f"{[decl(cmds, i, False)[0] for i in range(len(cmds))]}: {e}")],
                       key=key)
    try:
        for o in case["opts"]:
            dest_help = "flag " + o["flag"]
            if o["target"] < 0:
                ap.add_argument(o["flag"], action="store_true", help=dest_help)
                classes.add("argparser_level_option")
            else:
                ap.get_cmd_parser(cmds[o["target"]]["name"]).add_argument(o["flag"], action="store_true", help=dest_help)
            if o.get("twin"):
                # a second switch of the same parser that writes to a destination another option already uses: the
                # negative form of the flag ("--no-...", same dest) or an alias of the standard verbosity (dest='verbose')
                tgt = ap if o["target"] < 0 else ap.get_cmd_parser(cmds[o["target"]]["name"])
                if o["twin"] == "neg":
                    tgt.add_argument("--no-" + o["flag"][2:], action="store_const", const="no", default=False,
                                     dest=o["flag"][2:].replace("-", "_"), help="negative form")
                else:
                    tgt.add_argument("--loud-" + o["flag"][6:], action="store_const", const=7, default=0, dest="verbose",
                                     help="very verbose")
                classes.add("second_option_with_the_same_dest_" + o["twin"])
        if case.get("cmd_opt") is not None:
            # an option whose destination is called 'command' (-c / --command CMD of a tool that runs other programs)
            import argparse
            tgt = ap if case["cmd_opt"] < 0 else ap.get_cmd_parser(cmds[case["cmd_opt"] % len(cmds)]["name"])
            tgt.add_argument("-c", "--command", action="store_const", const="given", default=argparse.SUPPRESS,
                             help="a command to run")
            classes.add("option_with_dest_command")
        if case.get("clash") is not None:
            # an option added to an ancestor shares one option string with a flag a descendant already owns. Refusing it
            # (ArgumentError) is fine; if it is accepted, the new option is an option of that ancestor like any other
            pairs = [(o, a) for o in case["opts"] if o["target"] >= 0 for a in sorted(anc[o["target"]]) if a != o["target"]]
            if pairs:
                o, a = pairs[case["clash"] % len(pairs)]
                classes.add("clashing_option_added_to_an_ancestor")
                try:
                    ap.get_cmd_parser(cmds[a]["name"]).add_argument(o["flag"], "--clash-zz", action="store_true", dest="clash_zz")
                    accepted = True
                except Exception:   # noqa
                    accepted = False
                if accepted:
                    for ci in [i for i, c in enumerate(cmds) if not c["internal"] and a in anc[i]]:
                        try:
                            with contextlib.redirect_stderr(io.StringIO()), contextlib.redirect_stdout(io.StringIO()):
                                r_ = ap.parse_args([cmds[ci]["name"], "--clash-zz"])
                            ok_ = getattr(r_, "clash_zz", None) is True
                        except SystemExit:
                            ok_ = False
                        if not ok_:
                            f.append(("inherited_option_rejected", f"'--clash-zz' was added to {cmds[a]['name']} without an error, but "
                                      f"[{cmds[ci]['name']}, --clash-zz] is rejected"))
                            break
                # the rest of the check would judge a parser in an unspecified state
                return Outcome(nt, sorted(classes), f[:6], key=key)
        if case.get("positional"):
            # a positional accepted by every command, so that vectors starting with a non-option word can be valid
            ap.add_argument("files", nargs="*", help="positional arguments")
            classes.add("positional_arguments")
    except BaseException as e:   # noqa
        return Outcome(nt, sorted(classes), [("add_argument_raises_%s" % type(e).__name__, str(e))], key=key)

    def parse(vec):
        with contextlib.redirect_stderr(io.StringIO()), contextlib.redirect_stdout(io.StringIO()):
            try:
                if case.get("argv_from") == "sys":
                    # the usual way a program calls it: no argument, the vector is taken from sys.argv
                    import sys
                    saved = sys.argv
                    sys.argv = ["prog"] + list(vec)
                    try:
                        return "ok", ap.parse_args()
                    finally:
                        sys.argv = saved
                if case.get("argv_from") == "tuple":
                    return "ok", ap.parse_args(tuple(vec))
                arg = list(vec)
                try:
                    return "ok", ap.parse_args(arg)
                finally:
                    if arg != list(vec):
                        f.append(("callers_argument_list_modified", f"parse_args({list(vec)!r}) left the list as {arg!r}"))
            except SystemExit as e:
                return "exit", e.code
            except Exception as e:   # noqa
                return "exc", e

    evals = 0
    eff_default = dflt if dflt is not None else publics[0]

    def expect_accept(ci, o):
        return o["target"] < 0 or o["target"] in anc[ci]

    for ci in publics:
        name = cmds[ci]["name"]
        for o in case["opts"]:
            evals += 1
            st_, res = parse([name, o["flag"]])
            dest = o["flag"][2:].replace("-", "_")
            want = expect_accept(ci, o)
            if want:
                if st_ != "ok":
                    f.append(("inherited_option_rejected", f"[{name}, {o['flag']}] -> {st_} {res!r}; flag added to "
                              f"{'ArgParser' if o['target'] < 0 else cmds[o['target']]['name']}"))
                elif getattr(res, dest, None) is not True or res.command != name:
                    f.append(("option_parsed_wrong", f"[{name}, {o['flag']}] -> {res!r}"))
                else:
                    # every other flag this command accepts must default to False
                    for o2 in case["opts"]:
                        d2 = o2["flag"][2:].replace("-", "_")
                        if o2 is not o and expect_accept(ci, o2) and getattr(res, d2, None) is not False:
                            f.append(("other_option_not_defaulted", f"[{name}, {o['flag']}] -> {res!r}"))
                            break
            else:
                if st_ == "ok":
                    f.append(("foreign_option_accepted", f"[{name}, {o['flag']}] -> {res!r}; flag belongs to "
                              f"{cmds[o['target']]['name']}"))
                elif st_ != "exit" or res != 2:
                    f.append(("rejection_is_not_SystemExit_2", f"[{name}, {o['flag']}] -> {st_} {res!r}"))
            if o.get("twin"):
                evals += 1
                flag2 = ("--no-" + o["flag"][2:]) if o["twin"] == "neg" else ("--loud-" + o["flag"][6:])
                st2_, res2 = parse([name, flag2])
                if want:
                    good = st2_ == "ok" and res2.command == name and (
                        getattr(res2, dest, None) == "no" if o["twin"] == "neg" else res2.verbose == 7)
                    if st2_ != "ok":
                        f.append(("inherited_option_rejected", f"[{name}, {flag2}] -> {st2_} {res2!r}; declared next to {o['flag']}"))
                    elif not good:
                        f.append(("option_parsed_wrong", f"[{name}, {flag2}] -> {res2!r}"))
                elif st2_ == "ok":
                    f.append(("foreign_option_accepted", f"[{name}, {flag2}] -> {res2!r}"))
        # standard options
        for vec, chk in (([name, "-v"], lambda r: r.verbose == 1), ([name, "-vv"], lambda r: r.verbose == 2),
                         ([name, "--color=never"], lambda r: r.color == "never"),
                         ([name, "--color", "always"], lambda r: r.color == "always"),
                         ([name, "--no-color"], lambda r: r.color is False),
                         ([name], lambda r: r.color == "auto" and r.verbose == 0)):
            evals += 1
            st_, res = parse(vec)
            if st_ != "ok":
                f.append(("standard_option_rejected", f"{vec} -> {st_} {res!r}"))
            elif not chk(res) or res.command != name:
                f.append(("standard_option_parsed_wrong", f"{vec} -> {res!r}"))
    if case.get("cmd_opt") is not None:
        t = -1 if case["cmd_opt"] < 0 else case["cmd_opt"] % len(cmds)
        for ci in publics:
            evals += 1
            st_, res = parse([cmds[ci]["name"], "--command"])
            want = t < 0 or t in anc[ci]
            if want and st_ != "ok":
                f.append(("inherited_option_rejected", f"[{cmds[ci]['name']}, --command] -> {st_} {res!r}; option with dest "
                          f"'command' added to {'ArgParser' if t < 0 else cmds[t]['name']}"))
            elif not want and st_ == "ok":
                f.append(("foreign_option_accepted", f"[{cmds[ci]['name']}, --command] -> {res!r}"))
    # default command
    dname = cmds[eff_default]["name"]
    vecs = [[]] + [[o["flag"]] for o in case["opts"]] + [["-v"], ["--no-color"]]
    names = {c["name"] for c in cmds}
    words = [w for w in case.get("words", []) if w not in names]
    vecs += [[w] for w in words] + [[w, "-v"] for w in words[:2]] + [["-v", w] for w in words[:2]]
    for vec in vecs:
        evals += 1
        st1, r1 = parse(vec)
        st2, r2 = parse([dname] + vec)
        same = (st1 == st2) and (vars(r1) == vars(r2) if st1 == "ok" else r1 == r2 if st1 == "exit" else False)
        if not same:
            f.append(("default_command_not_applied", f"{vec} -> {st1} {r1!r} but {[dname] + vec} -> {st2} {r2!r}"))
        elif st1 == "ok" and r1.command != dname:
            f.append(("default_command_not_applied", f"{vec} -> {r1!r}"))
    if case.get("ns_reuse") and case.get("cmd_opt") is None:
        # the result of an earlier call handed back as namespace= : vectors without a command name still go to the default
        other = [cmds[ci]["name"] for ci in publics if cmds[ci]["name"] != dname]
        if other:
            try:
                with contextlib.redirect_stderr(io.StringIO()), contextlib.redirect_stdout(io.StringIO()):
                    ns = ap.parse_args([other[case["ns_reuse"] % len(other)]])
                    for vec in ([], ["-v"], ["--no-color"]):
                        evals += 1
                        r = ap.parse_args(list(vec), namespace=ns)
                        if r.command != dname:
                            f.append(("default_command_not_applied", f"{vec} with namespace= the result of [{ns.command!r}] -> "
                                      f"command {r.command!r}, default is {dname!r}"))
                            break
                        ns = ap.parse_args([other[case["ns_reuse"] % len(other)]])
                classes.add("earlier_result_reused_as_namespace")
            except SystemExit as e:
                f.append(("default_command_not_applied", f"namespace reuse -> exit {e.code}"))
    if dflt is not None:
        classes.add("explicit_default")
    return Outcome(nt, sorted(classes), f[:6], key=key, evals=evals)


@st.composite
def st_case(draw):
    n = draw(st.integers(1, 7))
    cmds = []
    for i in range(n):
        if i == 0:
            parents = []
        else:
            mode = draw(st.sampled_from(["none", "one", "some", "some", "many"]))
            if mode == "none":
                parents = []
            elif mode == "one":
                parents = [draw(st.integers(0, i - 1))]
            else:
                parents = sorted(set(draw(st.lists(st.integers(0, i - 1), min_size=1,
                                                   max_size=2 if mode == "some" else 4))))
        cmds.append({"name": "cmd%d" % i if draw(st.booleans()) else "c%dx" % i,
                     "internal": draw(st.integers(0, 3)) == 0, "parents": parents, "help2": draw(st.booleans())})
    if draw(st.integers(0, 4)) == 0:
        # a fixed shape: two families (g -> p), a command with both p's as parents, and commands declared after it that
        # name one p only - they inherit from their own family and from nothing of the other
        def mk(i, parents, internal=False):
            return {"name": "cmd%d" % i if draw(st.booleans()) else "c%dx" % i, "internal": internal, "parents": parents,
                    "help2": draw(st.booleans())}
        gi = draw(st.booleans())
        cmds = [mk(0, [], gi), mk(1, [], gi and draw(st.booleans())), mk(2, [0]), mk(3, [1]),
                mk(4, [2, 3] if draw(st.booleans()) else [3, 2]), mk(5, [2]), mk(6, [3])]
        if draw(st.booleans()):
            cmds.append(mk(7, [5]))
        n = len(cmds)
    if all(c["internal"] for c in cmds):
        cmds[draw(st.integers(0, n - 1))]["internal"] = False
    publics = [i for i, c in enumerate(cmds) if not c["internal"]]
    dflt = draw(st.none() | st.sampled_from(publics))
    nopt = draw(st.integers(0, 8))
    letters = "abcdefghij"
    opts = [{"flag": "--opt-%s%s" % (letters[k], letters[(k * 3 + 1) % 10]),
             "target": draw(st.integers(-1, n - 1))} for k in range(nopt)]
    for o in opts:
        if draw(st.integers(0, 3)) == 0:
            o["twin"] = draw(st.sampled_from(["neg", "neg", "verbose"]))
    opts = draw(st.permutations(opts)) if opts else opts
    words = draw(st.lists(st.sampled_from(["-", "--", "h", "help", "p", "", "x", "el", "file.txt", "cmd", "-h-", "cmd0x", "c1",
                                           # names that other parsers of the same process use for their commands
                                           "cmd1", "cmd2", "cmd4", "cmd6", "c1x", "c3x", "c5x", "c6x"]),
                          max_size=6, unique=True))
    return {"cmds": cmds, "default": dflt, "opts": list(opts), "spaced": draw(st.booleans()),
            "positional": draw(st.booleans()), "words": words,
            "commands_as": draw(st.sampled_from(["list", "list", "tuple", "iterator"])),
            "clash": draw(st.sampled_from([None, None, None, None, 0, 1, 2])),
            "argv_from": draw(st.sampled_from(["list", "list", "sys", "tuple"])),
            "cmd_opt": draw(st.sampled_from([None, None, None, -1, 0, 1, 2, 3])),
            "ns_reuse": draw(st.sampled_from([0, 0, 1, 2]))}


def regression_cases():
    def c(name, parents, internal=False):
        return {"name": name, "internal": internal, "parents": parents, "help2": False}
    # F11 diamond: r; a:r; b:r; c:a,b
    yield {"cmds": [c("r", []), c("a", [0]), c("b", [0]), c("c", [1, 2])], "default": None,
           "opts": [{"flag": "--opt-aa", "target": 0}, {"flag": "--opt-bb", "target": 1}], "spaced": False}
    # redundant ancestor: c:a,r
    yield {"cmds": [c("r", []), c("a", [0]), c("c", [0, 1])], "default": None,
           "opts": [{"flag": "--opt-aa", "target": 0}], "spaced": False}


def parts(tier):
    k = 1 if tier == "quick" else 40
    return [
        Part("regressions", evaluate, enumerate=regression_cases, exhaustive=True),
        Part("graphs", evaluate, strategy=st_case, examples=8000 * k),
    ]


TECHNIQUE = "property-based testing (Hypothesis) over command graphs and option assignments; every (command, flag) vector of each configuration is parsed and compared with the reflexive-transitive closure of the declared parents"
LEVEL_TEXT = ("Exploration: ~3k generated command graphs per quick run (120k thorough); for each, all (command, flag) pairs, the "
              "standard options and default-command vectors are parsed (exhaustive per configuration) and compared with the closure "
              "model. The graph space is unbounded, so graphs are sampled up to 7 commands.")
LEVEL_NOTE = "Trusted: the closure model (10 lines), stdlib argparse semantics for store_true flags."
