"""C05 - list, map and sequence templates return exactly the denoted items.

Schema-driven: a random type tree is turned into a grammar (ListProds / MapProds / ProdSequence plus ordinary
productions), data conforming to the type is generated and rendered to text with random skipped tokens, and the
cleaned parse result is compared with the denotation computed from the data.
"""
from hypothesis import strategies as st

from vlib import grammar as gk
from vlib.core import Outcome, Part
from vlib.parserguard import parse_guarded

ID = "C05"
RULE = ("type trees (depth <=3 quick / <=5 thorough) of List(item; brackets [] or () or none; delimiter , or none; "
        "allow_final_delimiter True/False/default; optional), Map(key, value; allow_final_delimiter; optional), "
        "Seq(symbols | AnyTokenExcept), Choice(word | num | list | map), word / num / nullable-word leaves, embedded as "
        "';'-terminated fields of a record; data of length 0-5 per container with repeated map keys, empty bracket pairs, "
        "absent optionals, empty nullable items; a final delimiter is emitted sometimes when allowed and sometimes when not "
        "(then ParsingError is expected); rendering with generated blanks, newlines, comments and multi-line comments; the last "
        "field optionally at the end of 1-3 levels of ordinary productions, productions declared top-down / bottom-up / shuffled. "
        "Non-trivial = depth >=2 or a non-default option or a container of length >=3; distinct by (schema, data)."
        " Also: texts given as str / list / tuple / iterator / generator / file object / dict keys view; a fragment parse with a start-symbol override before the examined parse."
        " Part seq_followers: E -> (SEQ, TAIL, ';') where SEQ = ProdSequence of 1-4 terminals and multi-token elements with pairwise different "
        "first tokens and TAIL keeps the first k>=1 tokens of one multi-token element and then departs from it (the parser enters the element, "
        "fails inside it and gives the sequence back); 0-5 elements per text; non-trivial = at least one element in some text.")
ASSUMPTIONS = [
    "documented preconditions respected: final delimiter needs brackets+delimiter, optional needs brackets, delimiter-less lists need non-nullable items",
    "uniquely decodable by construction: bracket-less lists only as a whole field (in front of ';') and never directly nested; a list of nullable items that ends with an empty item is rendered with the final delimiter when that is allowed; a lone empty item is never rendered between brackets",
    "sequence elements are terminals or parenthesised groups '(' SEQ ')' (of a second sequence or of the same one, recursively); of a group element only its tokens in order are judged, not the shape of its sub-tree; sequences (which may be empty) are not used as items of lists that allow a final delimiter",
    "bracket-less maps only as whole fields; keep_symbols on item symbols are not generated",
    "seq_followers: the follower is no element prefix-complete (it differs from the element body at a position inside it) and element first tokens are pairwise different, so every text has exactly one reading",
    "rollback variant: the record may have two alternatives (fields ';'... '+' | LEAD fields ';'... 'do') that share a parse-table cell",
]


# ---------------------------------------------------------------------------
# schema -> grammar
# ---------------------------------------------------------------------------

class Builder:
    def __init__(self, L):
        self.L = L
        self.prods = {}
        self.n = 0

    def sym(self, prefix):
        self.n += 1
        return "%s%d" % (prefix, self.n)

    def build(self, T):
        """-> symbol name for type T"""
        L = self.L
        t = T["t"]
        if t == "word":
            return "WORD"
        if t == "num":
            return "NUM"
        if t == "optword":
            s = self.sym("OPTW")
            self.prods[s] = [("WORD",), ()] if T.get("order", 0) == 0 else [(), ("WORD",)]
            return s
        if t == "list":
            item = self.build(T["item"])
            s = self.sym("LST")
            op, cl = {"sq": ("[", "]"), "par": ("(", ")"), None: (None, None)}[T.get("br")]
            kw = {}
            if T.get("final") is not None:
                kw["allow_final_delimiter"] = T["final"]
            if T.get("optional"):
                kw["optional"] = True
            self.prods[s] = L.ListProds(op, item, T.get("delim"), cl, **kw)
            return s
        if t == "map":
            val = self.build(T["val"])
            s = self.sym("MAP")
            kw = {}
            if T.get("final") is not None:
                kw["allow_final_delimiter"] = T["final"]
            if T.get("optional"):
                kw["optional"] = True
            op, cl = (None, None) if T.get("nobr") else ("{", "}")
            self.prods[s] = L.MapProds(op, "WORD" if T["key"] == "word" else "NUM", ":", val, ",", cl, **kw)
            return s
        if t == "seq":
            s = self.sym("SEQ")
            if T.get("except") is not None:
                self.prods[s] = L.ProdSequence(L.AnyTokenExcept(*T["except"]))
            elif T.get("group"):
                # a sequence whose elements may be parenthesised groups holding a sequence again
                g = self.sym("GRP")
                if T["group"]["recursive"]:
                    inner = s
                else:
                    inner = self.sym("SEQ")
                    self.prods[inner] = L.ProdSequence(*T["group"]["inner"])
                self.prods[g] = [("(", inner, ")")]
                self.prods[s] = L.ProdSequence(*(list(T["syms"]) + [g]))
            else:
                self.prods[s] = L.ProdSequence(*T["syms"])
            return s
        if t == "choice":
            s = self.sym("VAL")
            self.prods[s] = [(self.build(a),) for a in T["alts"]]
            return s
        raise AssertionError(t)


ALL_TERMINALS = ["WORD", "NUM", "+", ",", ";", "(", ")", "[", "]", "{", "}", ":", "IF", "END_KW", "DO", "COMMENT", "SPACE"]


def seq_symbols(T):
    if T.get("except") is not None:
        return [t for t in ["WORD", "NUM", "+", "IF", "DO", "END_KW", "(", ")", "[", "]", "{", "}", ":", ",", ";"]
                if t not in T["except"]]
    return T["syms"]


LEX = {"WORD": gk.WORDS, "NUM": gk.NUMS, "IF": ["if"], "DO": ["do"], "END_KW": ["end"]}


def lex_of(term, idx):
    pool = LEX.get(term, [term])
    return pool[idx % len(pool)]


# ---------------------------------------------------------------------------
# data -> tokens and denotation
# ---------------------------------------------------------------------------

def emit(T, D, out):
    """append tokens [(terminal, lexeme)] for data D of type T; returns denotation"""
    t = T["t"]
    if t in ("word", "num"):
        term = "WORD" if t == "word" else "NUM"
        lx = lex_of(term, D)
        out.append((term, lx))
        return lx
    if t == "optword":
        if D is None:
            return None
        lx = lex_of("WORD", D)
        out.append(("WORD", lx))
        return lx
    if t == "list":
        if D is None:
            return None      # absent optional list
        op, cl = {"sq": ("[", "]"), "par": ("(", ")"), None: (None, None)}[T.get("br")]
        if op:
            out.append((op, op))
        den = []
        for i, d in enumerate(D["items"]):
            if i and T.get("delim"):
                out.append((T["delim"], T["delim"]))
            den.append(emit(T["item"], d, out))
        if D.get("emit_final"):
            out.append((T["delim"], T["delim"]))
        if cl:
            out.append((cl, cl))
        return den
    if t == "map":
        if D is None:
            return None
        if not T.get("nobr"):
            out.append(("{", "{"))
        den = {}
        for i, (k, v) in enumerate(D["pairs"]):
            if i:
                out.append((",", ","))
            term = "WORD" if T["key"] == "word" else "NUM"
            lx = lex_of(term, k)
            out.append((term, lx))
            out.append((":", ":"))
            val = emit(T["val"], v, out)
            if lx in den:
                den[lx] = val          # repeated key keeps its first position, last value
            else:
                den[lx] = val
        if D.get("emit_final"):
            out.append((",", ","))
        if not T.get("nobr"):
            out.append(("}", "}"))
        return den
    if t == "seq":
        return emit_seq(T, seq_symbols(T), D, out)
    if t == "choice":
        k, d = D
        return emit(T["alts"][k % len(T["alts"])], d, out)
    raise AssertionError(t)


def emit_seq(T, syms, D, out):
    den = []
    for e in D:
        if e[0] == "grp":
            start = len(out)
            out.append(("(", "("))
            g = T["group"]
            emit_seq(T, syms if g["recursive"] else g["inner"], e[1], out)
            out.append((")", ")"))
            den.append(["grp", [[n, v] for n, v in out[start:] if n not in ("(", ")")]])
        else:
            si, li = e
            term = syms[si % len(syms)]
            lx = lex_of(term, li)
            out.append((term, lx))
            den.append(["tok", term, lx])
    return den


def plain_leaves(p):
    """tokens (name, value) of a plain result read left to right, brackets of groups left out"""
    if isinstance(p, list):
        if len(p) == 3 and p[0] == "tok" and isinstance(p[1], str) and not isinstance(p[2], (list, dict)):
            return [] if p[1] in ("(", ")") else [[p[1], p[2]]]
        if len(p) == 3 and p[0] == "node" and isinstance(p[2], list):
            return [x for c in p[2] for x in plain_leaves(c)]
        return [x for c in p for x in plain_leaves(c)]
    return []


def to_plain(x):
    """result value -> comparable plain data (TElement of a sequence element -> ['tok', name, value])"""
    if hasattr(x, "name") and hasattr(x, "value") and hasattr(x, "is_leaf"):
        if x.is_leaf():
            v = x.value
            if isinstance(v, (list, dict)) or v is None:
                return to_plain(v)
            return ["tok", x.name, v]
        return ["node", x.name, [to_plain(c) for c in x.value]]
    if isinstance(x, list):
        return [to_plain(i) for i in x]
    if isinstance(x, dict):
        return {k: to_plain(v) for k, v in x.items()}
    return x


def same(got, exp, T):
    """compare plain result with denotation for type T"""
    t = T["t"]
    if t in ("word", "num", "optword"):
        if isinstance(got, list) and len(got) == 3 and got[0] == "tok":
            got = got[2]
        return got == exp
    if t == "list":
        if exp is None or got is None:
            return got is None and exp is None
        return isinstance(got, list) and len(got) == len(exp) and all(same(g, e, T["item"]) for g, e in zip(got, exp))
    if t == "map":
        if exp is None or got is None:
            return got is None and exp is None
        return isinstance(got, dict) and list(got) == list(exp) and all(same(got[k], exp[k], T["val"]) for k in exp)
    if t == "seq":
        if not T.get("group"):
            return got == exp
        # one entry per matched element in order; a group element holds exactly its tokens in order
        return isinstance(got, list) and len(got) == len(exp) and all(
            (g == e) if e[0] == "tok" else (plain_leaves(g) == e[1]) for g, e in zip(got, exp))
    if t == "choice":
        return any(same(got, exp, a) for a in T["alts"])
    return False


def depth(T):
    t = T["t"]
    if t == "list":
        return 1 + depth(T["item"])
    if t == "map":
        return 1 + depth(T["val"])
    if t == "choice":
        return max(depth(a) for a in T["alts"])
    if t == "seq":
        return 1
    return 0


def options(T, acc):
    t = T["t"]
    if t == "list":
        acc.add("list_%s_%s" % ("brackets" if T.get("br") else "nobrackets", "delim" if T.get("delim") else "nodelim"))
        if T.get("final") is not None:
            acc.add("list_final_explicit_%s" % T["final"])
        if T.get("optional"):
            acc.add("list_optional")
        options(T["item"], acc)
    elif t == "map":
        acc.add("map")
        if T.get("final") is False:
            acc.add("map_no_final")
        if T.get("optional"):
            acc.add("map_optional")
        if T.get("nobr"):
            acc.add("map_nobrackets")
        options(T["val"], acc)
    elif t == "choice":
        acc.add("choice_symbol")
        for a in T["alts"]:
            options(a, acc)
    elif t == "seq":
        acc.add("seq_anyexcept" if T.get("except") is not None else "seq")
        if T.get("group"):
            acc.add("seq_with_group_elements")
    elif t == "optword":
        acc.add("nullable_item")


def evaluate(case):
    import ak.llparser as L
    tokcfg, _names = gk.tok_config(True, True)
    fields = case["fields"]
    B = Builder(L)
    try:
        syms = [B.build(T) for T in fields]
        wrap = case.get("wrap", 0)
        wrappers = {}
        for _ in range(wrap):
            # the last field sits at the end of `wrap` levels of ordinary productions: its follower ';' is only known
            # through FOLLOW propagation over several symbols
            w = B.sym("WRAP")
            wrappers[w] = [("WORD", syms[-1])]
            syms[-1] = w
        prod = []
        for s in syms:
            prod += [s, ";"]
        lead = case.get("lead")
        if lead:
            # two alternatives that meet in the parse table: the second starts with an extra token, so a failed
            # first alternative is rolled back and the same fields are parsed again one token further on
            prods = {"E": [tuple(prod + ["+"]), tuple([lead] + prod + ["DO"])]}
        else:
            prods = {"E": [tuple(prod)]}
        prods.update(wrappers)
        prods.update(B.prods)
        decl = case.get("decl")
        names = list(prods)
        if decl == "bottomup":
            names.reverse()
        elif isinstance(decl, list):
            names = [n for _, n in sorted(zip((decl * len(names))[:len(names)], names), key=lambda kv: kv[0])]
        prods = {n: prods[n] for n in names}
        parser = L.LLParser(gk.TOKENIZER, productions=prods, start_symbol_name="E", **tokcfg)
        decoy = None
        if case.get("decoy") and B.prods:
            # a second parser, alive next to the first one, whose templates carry the same symbol names with other options
            tn = [n for n, v in B.prods.items() if not isinstance(v, list)]
            if tn:
                dp = {"E": [tuple(tn)]}
                for i, n in enumerate(tn):
                    dp[n] = L.ListProds("[", "WORD", ",", "]", allow_final_delimiter=False) if i % 2 == 0 else \
                        L.MapProds("{", "NUM", ":", "WORD", ",", "}", allow_final_delimiter=False)
                decoy = L.LLParser(gk.TOKENIZER, productions=dp, start_symbol_name="E", **tokcfg)
    except Exception as e:   # noqa
        return Outcome(False, ["constructor_raises"], [("constructor_raises_" + type(e).__name__,
                                                        f"schema={fields!r}: {str(e)[-300:]}")])
    classes = set()
    if decoy is not None:
        classes.add("second_parser_with_same_template_names_alive")
    for T in fields:
        options(T, classes)
    f = []
    nt_any = False
    evals = 0
    for inst in case["instances"]:
        toks = []
        dens = []
        variant = inst.get("variant", 0) if lead else None
        if variant == 1:
            toks.append((lead, lex_of(lead, inst.get("lead_lex", 0))))
        for fi, (T, D) in enumerate(zip(fields, inst["data"])):
            if fi == len(fields) - 1:
                for wl in range(wrap):
                    toks.append(("WORD", lex_of("WORD", wl + inst.get("lead_lex", 0))))
            dens.append(emit(T, D, toks))
            toks.append((";", ";"))
        if variant == 0:
            toks.append(("+", "+"))
        elif variant == 1:
            toks.append(("DO", "do"))
        seps = (inst["seps"] + [""] * (len(toks) + 1))[:len(toks) + 1]
        for i in range(1, len(toks)):
            if seps[i] == "" and gk.need_space(toks[i - 1][1], toks[i][1]):
                seps[i] = " "
        text, _pos = gk.render(toks, seps)
        if inst.get("poison") is not None:
            # the same parser object first gets a text it must reject (never closed comment, foreign character, text cut
            # short): whatever that call leaves behind must not touch the next one
            bad = ["[ a /* never closed", "a $ b", text[:max(0, len(text) // 2)] + " /*", "{ a : ", "( ( ("][inst["poison"] % 5]
            parse_guarded(L, parser, bad, len(toks) + 8, budget=60000)      # outcome irrelevant, but must not hang
            classes.add("rejected_text_parsed_before")
        if inst.get("fragment") is not None:
            # parse(fragment, start_symbol_name=X) for some symbol X of the grammar (the documented way to look at how small
            # parts are parsed) first, whatever it gives: the override is for that one call
            xs = sorted(n for n in parser.prods_map if "__" not in n and not n.startswith("$"))
            x = xs[inst["fragment"] % len(xs)]
            parse_guarded(L, parser, ["a", "[ a ]", "7", text][inst["fragment"] % 4], len(toks) + 8, budget=60000,
                          start_symbol_name=x)
            classes.add("fragment_parsed_with_start_symbol_override_before")
        # the text as a str or as any iterable of lines (list, tuple, one-shot iterator, generator, file-like object)
        form = inst.get("form") or "str"
        lines = text.split("\n")
        src = {"str": lambda: text, "list": lambda: lines, "tuple": lambda: tuple(lines), "iter": lambda: iter(lines),
               "gen": lambda: (ln for ln in lines), "file": lambda: __import__("io").StringIO(text),
               "dictkeys": lambda: dict.fromkeys(_uniq(lines)).keys()}[form]()
        if form != "str":
            classes.add("text_given_as_" + form)
        kind, res, _st = parse_guarded(L, parser, src, len(toks))
        evals += 1
        ctx = f"schema={fields!r} text={text!r}" + ("" if form == "str" else f" (passed as {form} of lines)")
        if inst.get("expect_error"):
            classes.add("final_delimiter_where_not_allowed")
            if kind == "tree":
                f.append(("final_delimiter_accepted_where_not_allowed", ctx))
            elif kind != "parsing_error":
                f.append(("bad_input_raises_" + (type(res).__name__ if kind == "exception" else kind), f"{ctx}: {res}"))
            continue
        if kind == "parsing_error":
            f.append(("valid_text_rejected", f"{ctx}: {str(res)[:200]}"))
            continue
        if kind != "tree":
            f.append(("parse_" + kind + ("_" + type(res).__name__ if kind == "exception" else ""), f"{ctx}: {res}"))
            continue
        # E -> (f1, ';', f2, ';', ...)
        vals = res.value
        if lead and isinstance(vals, list):
            classes.add("rollback_variant_%d" % variant)
            vals = vals[1:-1] if variant == 1 else vals[:-1]
        if not isinstance(vals, list) or len(vals) != 2 * len(fields):
            f.append(("root_shape_unexpected", f"{ctx}: {res!r}"))
            continue
        if wrap:
            classes.add("last_field_wrapped_%d" % wrap)
        for i, (T, den) in enumerate(zip(fields, dens)):
            node = vals[2 * i]
            if i == len(fields) - 1:
                bad_shape = False
                for _ in range(wrap):
                    kids = getattr(node, "value", None)
                    if not isinstance(kids, list) or len(kids) != 2:
                        bad_shape = True
                        break
                    node = kids[1]
                if bad_shape:
                    f.append(("wrapper_shape_unexpected", f"{ctx}: {res!r}"))
                    continue
            got = to_plain(node)
            if T["t"] in ("list", "map") and den is None:
                ok = getattr(node, "value", 0) is None
            else:
                ok = same(got, den, T)
            if not ok:
                kind_ = T["t"]
                why = "wrong_items"
                if isinstance(got, list) and isinstance(den, list) and T["t"] == "list":
                    why = "extra_element" if len(got) > len(den) else "missing_element" if len(got) < len(den) else "wrong_items"
                if den is None:
                    why = "absent_optional_not_None"
                f.append((f"{kind_}_{why}", f"{ctx}: field {i} gives {got!r}, denotes {den!r}"))
        if any(d is None for T, d in zip(fields, dens) if T["t"] in ("list", "map")):
            classes.add("absent_optional")
        if inst.get("has_final"):
            classes.add("final_delimiter_emitted")
        if len(f) > 3:
            break
    big = any(isinstance(x, (list, dict)) and len(x) >= 3 for inst in case["instances"] for x in _containers(inst["data"]))
    nontrivial = max(depth(T) for T in fields) >= 2 or bool(classes - {"list_brackets_delim", "map", "seq"}) or big
    return Outcome(nontrivial, sorted(classes), f[:4], evals=evals)


def _containers(data):
    out = []

    def walk(d):
        if isinstance(d, dict):
            if "items" in d:
                out.append(d["items"])
                for x in d["items"]:
                    walk(x)
            if "pairs" in d:
                out.append(d["pairs"])
                for k, v in d["pairs"]:
                    walk(v)
        elif isinstance(d, list):
            for x in d:
                walk(x)
    walk(data)
    return out


# ---------------------------------------------------------------------------
# strategies
# ---------------------------------------------------------------------------

@st.composite
def st_type(draw, depth_left, ctx):
    """ctx: 'field' (whole ';'-terminated field), 'item_delim' (item of a list with delimiter), 'item_nodelim', 'value'"""
    kinds = ["word", "num"]
    if depth_left > 0:
        kinds += ["list", "list", "map", "choice"]
    if ctx == "item_delim":
        kinds += ["optword", "seq"]
    if ctx in ("field", "value"):
        kinds += ["seq"]
    k = draw(st.sampled_from(kinds))
    if k in ("word", "num"):
        return {"t": k}
    if k == "optword":
        return {"t": "optword", "order": draw(st.integers(0, 1))}
    if k == "seq":
        if draw(st.integers(0, 3)) == 0:
            # everything except the tokens that delimit the context
            return {"t": "seq", "except": [",", ";", "]", ")", "}", "[", "(", "{", ":", "COMMENT", "SPACE"]}
        if ctx in ("field", "value") and draw(st.integers(0, 2)) == 0:
            sub = st.lists(st.sampled_from(["WORD", "NUM", "+"]), min_size=1, max_size=3, unique=True)
            return {"t": "seq", "syms": draw(sub), "group": {"recursive": draw(st.booleans()), "inner": draw(sub)}}
        return {"t": "seq", "syms": draw(st.lists(st.sampled_from(["WORD", "NUM", "+", "IF", "DO"]), min_size=1, max_size=3,
                                                   unique=True))}
    if k == "choice":
        alts = [{"t": "word"}, {"t": "num"}]
        alts.append(draw(st_list(depth_left - 1, need_brackets=True, br="sq")))
        if draw(st.booleans()):
            alts.append(draw(st_map(depth_left - 1)))
        alts = draw(st.permutations(alts))
        return {"t": "choice", "alts": list(alts[:draw(st.integers(2, len(alts)))])}
    if k == "map":
        m = draw(st_map(depth_left - 1))
        if ctx == "field" and draw(st.integers(0, 2)) == 0:
            m["nobr"] = True            # bracket-less map: only as a whole ';'-terminated field
            m["optional"] = False
        return m
    need_br = ctx != "field"
    return draw(st_list(depth_left - 1, need_brackets=need_br))


@st.composite
def st_list(draw, depth_left, need_brackets, br=None):
    brk = br or draw(st.sampled_from(["sq", "sq", "par"] + ([] if need_brackets else [None, None])))
    delim = draw(st.sampled_from([",", ",", None]))
    if brk is None and delim is None and draw(st.booleans()):
        delim = ","
    item = draw(st_type(depth_left, "item_delim" if delim else "item_nodelim"))
    if item["t"] == "list" and item.get("br") is None:
        item["br"] = "sq"
    if delim is None and nullable_type(item):
        item = make_non_nullable(item)      # documented precondition of delimiter-less lists
    if brk is None and item["t"] == "seq":
        item = {"t": "word"}                # an empty bracket-less list of (possibly empty) sequences is not decodable
    final = None
    if brk and delim:
        final = draw(st.sampled_from([None, None, True, False]))
    elif draw(st.booleans()):
        final = False
    if item["t"] != "optword" and nullable_type(item) and (final is True or (final is None and brk and delim)):
        final = False     # only for nullable *word* items the package promises that a final delimiter adds nothing
    # a choice item next to the same kind of brackets stays decodable: items start with their own opening bracket
    optional = bool(brk) and draw(st.integers(0, 3)) == 0
    return {"t": "list", "item": item, "br": brk, "delim": delim, "final": final, "optional": optional}


@st.composite
def st_map(draw, depth_left):
    val = draw(st_type(depth_left, "value"))
    if val["t"] == "list" and val.get("br") is None:
        val["br"] = "sq"
    if val["t"] == "seq" and val.get("except") is not None:
        val = {"t": "seq", "syms": ["WORD", "NUM"]}
    final = draw(st.sampled_from([None, None, True, False]))
    if nullable_type(val):
        final = False      # an empty trailing value and a final delimiter cannot be told apart
    return {"t": "map", "key": draw(st.sampled_from(["word", "word", "num"])), "val": val, "final": final,
            "optional": draw(st.integers(0, 3)) == 0}


def nullable_type(T):
    t = T["t"]
    if t in ("optword", "seq"):
        return True
    if t in ("list", "map"):
        return bool(T.get("optional")) or (t == "list" and not T.get("br")) or (t == "map" and bool(T.get("nobr")))
    if t == "choice":
        return any(nullable_type(a) for a in T["alts"])
    return False


def make_non_nullable(T):
    t = T["t"]
    if t in ("optword", "seq"):
        return {"t": "word"}
    if t in ("list", "map"):
        T = dict(T)
        T["optional"] = False
        if t == "list" and not T.get("br"):
            T["br"] = "sq"
        return T
    if t == "choice":
        T = dict(T)
        T["alts"] = [make_non_nullable(a) for a in T["alts"]]
        return T
    return T


def final_allowed(T):
    if T["t"] == "list":
        if T.get("final") is None:
            return bool(T.get("delim")) and bool(T.get("br"))
        return T["final"]
    return T.get("final") is not False     # map default True


@st.composite
def st_data(draw, T, flags, allow_absent):
    t = T["t"]
    if t in ("word", "num"):
        return draw(st.integers(0, 7))
    if t == "optword":
        return draw(st.none() | st.integers(0, 7))
    if t == "seq":
        lo = 1 if flags.get("_item") else 0    # as a list item a sequence is never empty (a lone empty item is not rendered)
        tok = st.tuples(st.integers(0, 5), st.integers(0, 7)).map(list)
        if T.get("group"):
            inner = st.lists(tok, max_size=4)
            if T["group"]["recursive"]:
                inner = st.lists(tok | st.lists(tok, max_size=3).map(lambda x: ["grp", x]), max_size=4)
            elem = st.one_of(tok, tok, inner.map(lambda x: ["grp", x]))
            return draw(st.lists(elem, min_size=lo, max_size=4))
        return [draw(tok) for _ in range(draw(st.integers(lo, 4)))]
    if t == "choice":
        k = draw(st.integers(0, len(T["alts"]) - 1))
        return [k, draw(st_data(T["alts"][k], flags, False))]
    if t == "list":
        if T.get("optional") and allow_absent and draw(st.integers(0, 2)) == 0:
            return None
        n = draw(st.integers(0, 5))
        was = flags.get("_item")
        flags["_item"] = True
        items = [draw(st_data(T["item"], flags, False)) for _ in range(n)]
        flags["_item"] = was
        nullable = T["item"]["t"] == "optword"
        fa = final_allowed(T)
        emit_final = False
        if nullable:
            if len(items) == 1 and items[0] is None and T.get("br"):
                if fa:
                    emit_final = True        # "[ , ]"
                else:
                    items = []               # "[ ]" is the empty list
            elif items and items[-1] is None and fa:
                emit_final = True
            elif items and fa and draw(st.booleans()):
                emit_final = True
            if not T.get("br") and items and all(i is None for i in items) and len(items) == 1:
                items = []
        elif items and T.get("delim") and T.get("br"):
            if fa:
                emit_final = draw(st.booleans())
            elif not nullable_type(T["item"]) and not flags.get("error") and draw(st.integers(0, 6)) == 0:
                emit_final = True
                flags["error"] = True
        if emit_final:
            flags["final"] = True
        return {"items": items, "emit_final": emit_final}
    if t == "map":
        if T.get("optional") and allow_absent and draw(st.integers(0, 2)) == 0:
            return None
        n = draw(st.integers(0, 4))
        was = flags.get("_item")
        flags["_item"] = False
        pairs = [[draw(st.integers(0, 3)), draw(st_data(T["val"], flags, False))] for _ in range(n)]
        flags["_item"] = was
        emit_final = False
        if pairs:
            if final_allowed(T):
                emit_final = draw(st.booleans())
            elif not nullable_type(T["val"]) and not flags.get("error") and draw(st.integers(0, 6)) == 0:
                emit_final = True
                flags["error"] = True
        if emit_final:
            flags["final"] = True
        return {"pairs": pairs, "emit_final": emit_final}
    raise AssertionError(t)


def _uniq(lines):
    """the same lines, made pairwise different by trailing blanks (insignificant for the tokenizer)"""
    out, seen = [], set()
    for ln in lines:
        while ln in seen:
            ln += " "
        seen.add(ln)
        out.append(ln)
    return out


@st.composite
def st_case(draw, maxdepth=3):
    nf = draw(st.integers(1, 3))
    fields = [draw(st_type(draw(st.integers(1, maxdepth)), "field")) for _ in range(nf)]
    instances = []
    for _ in range(draw(st.integers(2, 5))):
        flags = {}
        data = [draw(st_data(T, flags, True)) for T in fields]
        seps = draw(st.lists(gk.st_sep(), min_size=0, max_size=40))
        instances.append({"data": data, "seps": seps, "expect_error": bool(flags.get("error")),
                          "has_final": bool(flags.get("final")), "variant": draw(st.integers(0, 1)),
                          "poison": draw(st.none() | st.none() | st.integers(0, 4)),
                          "lead_lex": draw(st.integers(0, 7)),
                          "fragment": draw(st.none() | st.none() | st.integers(0, 40)),
                          "form": draw(st.sampled_from(["str", "str", "str", "list", "tuple", "iter", "gen", "file",
                                                        "dictkeys"]))})
    lead = draw(st.sampled_from([None, None, "WORD", "NUM"]))
    return {"fields": fields, "instances": instances, "lead": lead, "decoy": draw(st.booleans()), "wrap": draw(st.sampled_from([0, 0, 1, 2, 3])),
            "decl": draw(st.sampled_from([None, "bottomup", "shuffle"]).flatmap(
                lambda d: st.lists(st.integers(0, 9), min_size=7, max_size=7) if d == "shuffle" else st.just(d)))}


# ---------------------------------------------------------------------------
# sequences whose follower begins like one of their multi-token elements
# ---------------------------------------------------------------------------

FOLLOW_TERMS = ["WORD", "NUM", "+", ",", "(", ")", "[", "]", "{", "}", ":", "IF", "DO"]


def evaluate_follow(case):
    """E -> (SEQ, TAIL, ';') [+ rollback alternative]; SEQ = ProdSequence(terminals and multi-token elements with pairwise
    different first tokens); TAIL begins with the first token of a multi-token element and departs from its body at a
    later position, so the parser enters the element, fails inside it and has to give the sequence back unharmed."""
    import ak.llparser as L
    tokcfg, _names = gk.tok_config(True, True)
    elems = case["elems"]          # [terminal | [terminal, ...]]
    tail = case["tail"]
    prods = {}
    names = []
    for i, e in enumerate(elems):
        if isinstance(e, list):
            n = "ELM%d" % i
            prods[n] = [tuple(e)]
            names.append(n)
        else:
            names.append(e)
    try:
        top = {"E": [("S", "TAIL", ";")], "TAIL": [tuple(tail)], "S": L.ProdSequence(*names)}
        if case.get("lead"):
            top["E"] = [("S", "TAIL", ";", "END_KW"), ("S", "TAIL", ";")]
        top.update(prods)
        if case.get("bottomup"):
            top = {k: top[k] for k in reversed(list(top))}
        parser = L.LLParser(gk.TOKENIZER, productions=top, start_symbol_name="E", **tokcfg)
    except Exception as e:   # noqa
        return Outcome(False, ["constructor_raises"], [("constructor_raises_" + type(e).__name__,
                                                        f"follow case={case!r}: {str(e)[-300:]}")])
    f = []
    classes = {"seq_follower_starts_like_an_element"}
    evals = 0
    for inst in case["instances"]:
        toks = []
        exp = []
        for ei, lx in inst["items"]:
            e = elems[ei % len(elems)]
            if isinstance(e, list):
                start = len(toks)
                for k, t in enumerate(e):
                    toks.append((t, lex_of(t, lx + k)))
                exp.append([names[ei % len(elems)], [v for _, v in toks[start:]]])
            else:
                toks.append((e, lex_of(e, lx)))
                exp.append([e, [toks[-1][1]]])
        for k, t in enumerate(tail):
            toks.append((t, lex_of(t, inst["tail_lex"] + k)))
        toks.append((";", ";"))
        seps = (inst["seps"] + [""] * (len(toks) + 1))[:len(toks) + 1]
        for i in range(1, len(toks)):
            if seps[i] == "" and gk.need_space(toks[i - 1][1], toks[i][1]):
                seps[i] = " "
        text, _pos = gk.render(toks, seps)
        kind, res, _st = parse_guarded(L, parser, text, len(toks))
        evals += 1
        ctx = f"elements={elems!r} follower={tail!r} text={text!r}"
        if kind == "parsing_error":
            f.append(("valid_text_rejected", f"{ctx}: {str(res)[:200]}"))
            continue
        if kind != "tree":
            f.append(("parse_" + kind + ("_" + type(res).__name__ if kind == "exception" else ""), f"{ctx}: {res}"))
            continue
        vals = res.value
        if not isinstance(vals, list) or len(vals) != 3 or getattr(vals[0], "name", None) != "S":
            f.append(("root_shape_unexpected", f"{ctx}: {res!r}"))
            continue
        seq = vals[0].value
        if not isinstance(seq, list):
            f.append(("seq_not_a_list", f"{ctx}: {seq!r}"))
            continue
        got = []
        for el in seq:
            leaves = []

            def walk(x):
                if isinstance(getattr(x, "value", None), list):
                    for c in x.value:
                        walk(c)
                elif x is not None:
                    leaves.append(getattr(x, "value", x))
            walk(el)
            got.append([getattr(el, "name", None), leaves])
        if got != exp:
            why = "extra_element" if len(got) > len(exp) else "missing_element" if len(got) < len(exp) else "wrong_items"
            f.append(("seq_" + why, f"{ctx}: sequence gives {got!r}, matched elements are {exp!r}"))
        if any(isinstance(elems[ei % len(elems)], list) for ei, _ in inst["items"]):
            classes.add("multi_token_elements_matched")
        if len(exp) >= 2:
            classes.add("follower_after_two_or_more_elements")
        if not exp:
            classes.add("follower_after_empty_sequence")
    if case.get("lead"):
        classes.add("rollback_alternative")
    return Outcome(any(len(i["items"]) >= 1 for i in case["instances"]), sorted(classes), f[:4], evals=evals)


@st.composite
def st_follow_case(draw):
    firsts = draw(st.lists(st.sampled_from(FOLLOW_TERMS), min_size=1, max_size=4, unique=True))
    elems = []
    multi = []
    for i, t in enumerate(firsts):
        if i == 0 or draw(st.booleans()):
            body = [t] + draw(st.lists(st.sampled_from(FOLLOW_TERMS), min_size=1, max_size=3))
            elems.append(body)
            multi.append(body)
        else:
            elems.append(t)
    base = draw(st.sampled_from(multi))
    # the follower keeps k >= 1 tokens of the element body and then departs from it
    k = draw(st.integers(1, len(base) - 1))
    other = draw(st.sampled_from([t for t in FOLLOW_TERMS if t != base[k]]))
    tail = base[:k] + [other] + draw(st.lists(st.sampled_from(FOLLOW_TERMS), max_size=2))
    instances = []
    for _ in range(draw(st.integers(2, 4))):
        instances.append({"items": draw(st.lists(st.tuples(st.integers(0, 7), st.integers(0, 7)), max_size=5)),
                          "tail_lex": draw(st.integers(0, 7)),
                          "seps": draw(st.lists(gk.st_sep(), min_size=0, max_size=24))})
    return {"elems": elems, "tail": tail, "instances": instances, "lead": draw(st.booleans()),
            "bottomup": draw(st.booleans())}


def parts(tier):
    if tier == "quick":
        return [Part("schemas", evaluate, strategy=st_case, examples=8000),
                Part("seq_followers", evaluate_follow, strategy=st_follow_case, examples=1500)]
    return [Part("schemas", evaluate, strategy=st_case, examples=100000),
            Part("schemas_deep", evaluate, strategy=lambda: st_case(maxdepth=5), examples=40000),
            Part("seq_followers", evaluate_follow, strategy=st_follow_case, examples=40000)]


TECHNIQUE = "schema-driven property-based testing (Hypothesis): random container types -> grammar with ListProds/MapProds/ProdSequence; generated data rendered to text; cleaned parse result compared with the denotation computed from the data"
LEVEL_TEXT = ("Exploration: ~3k generated schemas x ~3 data instances per quick run (140k schemas thorough) covering every template option "
              "and nesting up to depth 3 (5 thorough); the cleaned tree is compared element by element with the denotation of the data the "
              "text was rendered from, including None for absent optionals / empty nullable items and ParsingError for a final delimiter "
              "where it is not allowed.")
LEVEL_NOTE = "Trusted: the emit/denotation function of the check, vlib/grammar.render, Hypothesis. Decodability restrictions listed in ASSUMPTIONS."
