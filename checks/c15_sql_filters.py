"""C15 - SQL filters select exactly the intended rows; values are always bound.

Oracle 1: own three-valued (TRUE/FALSE/UNKNOWN) evaluator over the Python copy of the table.
Oracle 2: a recording cursor wrapper captures execute(sql, params).
"""
import re
import sqlite3

from hypothesis import strategies as st

from vlib.core import Outcome, Part

ID = "C15"
RULE = ("sqlite3 :memory: table tb(id INTEGER unique non-null, n INTEGER, s TEXT, t TEXT) with 0-12 rows of ints / "
        "ASCII strings (quotes, %, _, ;--, SQL fragments; every string carries the marker '~#') / NULLs; condition "
        "lists of 0-5 items: (col, op, value) for all 12 operators in any letter case, 2-tuples, =/!= with None and with "
        "list/tuple (empty, singleton, with None inside), IN/NOT IN with list/tuple/set, LIKE patterns, NULL tests, nested "
        "_or(...) groups with kwargs, static string conditions, None arguments, kwargs filters, _order_by asc/desc/absent, "
        "_as_scalars; entry points list/all/one/one_or_none and SqlMethodT.list, both placeholder styles. Non-trivial = "
        "tree has an OR group, or an empty / None-containing list, or a negative operator (!=, NOT IN, NOT LIKE, <, >, "
        "<=, >=) facing a NULL cell; distinct by (rows, conditions) hash."
        " Also: bytes operands; keyword filters on columns _n / _s; four select texts (neutral joins of derived tables with their own WHERE, unnameable result columns); condition objects reused inside other _or groups; a failing request carrying valid conditions first.")
ASSUMPTIONS = [
    "values keep to the column's type (ints for INTEGER, str for TEXT) so SQLite cross-type ordering never decides",
    "SQLite LIKE = ASCII-case-insensitive %/_ glob without escape character; strings are ASCII printable",
    "only operator/value combinations the constructor documents as valid are generated",
    "first selected column (id) is never NULL, so one()/one_or_none() with _as_scalars is unambiguous",
]

COLS = ["tb.id", "tb.n", "tb.s", "tb.t"]
# (_n and _s are two more columns of the table holding copies of n and s: column names may start with an underscore)
IDX = {"tb.id": 0, "tb.n": 1, "tb.s": 2, "tb.t": 3, "id": 0, "n": 1, "s": 2, "t": 3, "_n": 1, "_s": 2}
STATIC = ["tb.n = tb.id", "tb.s = tb.t", "tb.n IS NULL", "1", "tb.n < tb.id", "tb.s IS NOT NULL",
          # static SQL text with literals whose blanks matter (the text is the caller's: it goes to the database verbatim)
          "tb.s = 'x  y'", "tb.t = 'a\tb'", "tb.s != 'p\u00a0q'", "tb.s   =   'x y'", "(tb.t = 'a b'\n  OR tb.t = 'x  y')"]
SELECTS = ["SELECT tb.id, tb.n, tb.s, tb.t FROM tb",
           "SELECT tb.id, tb.n, tb.s, tb.t FROM tb LEFT JOIN (SELECT id AS jid FROM tb WHERE id > -1000000000) AS j ON j.jid = tb.id",
           'SELECT tb.id, tb.n AS "n n", tb.s, tb.t AS "1t" FROM tb',
           "SELECT tb.id, tb.n, tb.s, tb.t FROM tb JOIN (SELECT 1 AS one WHERE 1 = 1) AS k ON 1 = 1"]
BLANK_VALUES = ["x  y", "x y", "a\tb", "a b", "p\u00a0q", "p q"]
MARK = "~#"


def t_not(x):
    return None if x is None else (not x)


def t_and(xs):
    r = True
    for x in xs:
        if x is False:
            return False
        if x is None:
            r = None
    return r


def t_or(xs):
    r = False
    for x in xs:
        if x is True:
            return True
        if x is None:
            r = None
    return r


def like(a, pat):
    if a is None or pat is None:
        return None
    rx = "".join(".*" if ch == "%" else "." if ch == "_" else re.escape(ch) for ch in pat)
    return re.fullmatch(rx, str(a), re.I | re.S | re.A) is not None


def cmp(op, a, b):
    if a is None or b is None:
        return None
    if isinstance(a, bytes) != isinstance(b, bytes):
        # a BLOB operand is bound as a BLOB; numbers and texts sort before every BLOB and are never equal to one
        a, b = (1, 0) if isinstance(a, bytes) else (0, 1)
    return {"=": a == b, "!=": a != b, ">": a > b, "<": a < b, ">=": a >= b, "<=": a <= b}[op]


def dec_value(v):
    if isinstance(v, list):
        kind, items = v
        if kind == "bytes":
            return bytes.fromhex(items)
        if kind == "range":
            return list(range(items[0], items[1]))        # a long list of values (a thousand and more)
        return {"list": list, "tuple": tuple, "set": set}[kind]([dec_value(x) for x in items])
    return v


def in_list(a, items):
    items = list(items)
    if not items:
        return False
    if a is None:
        return None
    if any(x is not None and x == a for x in items):
        return True
    if any(x is None for x in items):
        return None
    return False


def eval_static(text, row):
    i, n, s, t = row
    if text == "tb.n = tb.id":
        return cmp("=", n, i)
    if text == "tb.s = tb.t":
        return cmp("=", s, t)
    if text == "tb.n IS NULL":
        return n is None
    if text == "1":
        return True
    if text == "tb.n < tb.id":
        return cmp("<", n, i)
    if text == "tb.s IS NOT NULL":
        return s is not None
    if text == "tb.s = 'x  y'":
        return cmp("=", s, "x  y")
    if text == "tb.t = 'a\tb'":
        return cmp("=", t, "a\tb")
    if text == "tb.s != 'p\u00a0q'":
        return cmp("!=", s, "p\u00a0q")
    if text == "tb.s   =   'x y'":
        return cmp("=", s, "x y")
    if text == "(tb.t = 'a b'\n  OR tb.t = 'x  y')":
        return t_or([cmp("=", t, "a b"), cmp("=", t, "x  y")])
    raise AssertionError(text)


def eval_cond(c, row, notes):
    kind = c[0]
    if kind == "none":
        return True
    if kind == "static":
        return eval_static(c[1], row)
    if kind == "or":
        notes.add("or_group")
        subs = [eval_cond(x, row, notes) for x in c[1]]
        subs += [eval_cond(["c", k, "=", v], row, notes) for k, v in sorted(c[2].items())]
        if not subs:
            notes.add("empty_or_group")
        return t_or(subs)
    if kind == "c2":
        col, op, val = c[1], "=", c[2]
    else:
        col, op, val = c[1], c[2].upper(), c[3]
    a = row[IDX[col]]
    v = dec_value(val)
    if op in ("=", "!="):
        if v is None:
            r = a is None
            return r if op == "=" else not r
        if isinstance(v, (list, tuple)):
            op = "IN" if op == "=" else "NOT IN"
    if op in ("IN", "NOT IN"):
        if not list(v):
            notes.add("empty_list")
        if any(x is None for x in v):
            notes.add("none_in_list")
        r = in_list(a, v)
        if op == "NOT IN":
            if a is None and list(v):
                notes.add("negative_op_on_null_cell")
            return t_not(r)
        return r
    if op == "IS NULL":
        return a is None
    if op == "IS NOT NULL":
        return a is not None
    if op in ("LIKE", "NOT LIKE"):
        r = like(a, v)
        if op == "NOT LIKE":
            if a is None:
                notes.add("negative_op_on_null_cell")
            return t_not(r)
        return r
    if a is None and op != "=":
        notes.add("negative_op_on_null_cell")
    return cmp(op, a, v)


def flatten_params(conds, kwargs):
    """expected bound values, left to right; a set contributes an unordered segment"""
    out = []

    def one(c):
        kind = c[0]
        if kind in ("none", "static"):
            return
        if kind == "or":
            for x in c[1]:
                one(x)
            for k, v in sorted(c[2].items()):
                one(["c", k, "=", v])
            return
        op, val = ("=", c[2]) if kind == "c2" else (c[2].upper(), c[3])
        v = dec_value(val)
        if op in ("IS NULL", "IS NOT NULL"):
            return
        if op in ("=", "!=") and v is None:
            return
        if isinstance(v, (list, tuple)):
            out.extend(("v", x) for x in v)
        elif isinstance(v, set):
            out.append(("set", sorted(v, key=repr)))
        else:
            out.append(("v", v))
    for c in conds:
        one(c)
    for k, v in sorted(kwargs.items()):
        one(["c", k, "=", v])
    return out


def params_match(expected, actual):
    actual = list(actual)
    pos = 0
    for kind, x in expected:
        if kind == "v":
            if pos >= len(actual) or not (actual[pos] == x and type(actual[pos]) is type(x)):
                return False
            pos += 1
        else:
            seg = actual[pos:pos + len(x)]
            if sorted(seg, key=repr) != x:
                return False
            pos += len(x)
    return pos == len(actual)


def to_arg(M, c):
    kind = c[0]
    if kind == "none":
        return None
    if kind == "static":
        return c[1]
    if kind == "or":
        return M.SqlMethod._or(*[to_arg(M, x) for x in c[1]], **{k: dec_value(v) for k, v in c[2].items()})
    if kind == "c2":
        return (c[1], dec_value(c[2]))
    if c[-1] == "aslist":
        return [c[1], c[2], dec_value(c[3])]
    return (c[1], c[2], dec_value(c[3]))


class _Log:
    def __init__(self):
        self.calls = []


def make_conn(real, log, percent):
    class Cur:
        def __init__(self):
            self.c = real.cursor()

        def execute(self, sql, params=()):
            if getattr(log, "fail_next", False):
                # a transient failure of the database (another connection holds the lock)
                log.fail_next = False
                raise sqlite3.OperationalError("database is locked")
            log.calls.append((sql, list(params)))
            if percent:
                sql = sql.replace("%s", "?")
            return self.c.execute(sql, params)

        def __iter__(self):
            return iter(self.c)

        # the rest of the DB-API cursor, as a real driver offers it
        def fetchall(self):
            return self.c.fetchall()

        def fetchone(self):
            return self.c.fetchone()

        def fetchmany(self, size=None):
            return self.c.fetchmany(size) if size is not None else self.c.fetchmany()

        @property
        def rowcount(self):
            return self.c.rowcount

        @property
        def arraysize(self):
            return self.c.arraysize

        def __enter__(self):
            return self

        def __exit__(self, *a):
            self.c.close()
            return False

        @property
        def description(self):
            return self.c.description

        def close(self):
            self.c.close()

    class Conn:
        def cursor(self):
            return Cur()
    if percent:
        Conn.__module__ = "mysql.connector.fake_for_test"
        Conn.__qualname__ = "Conn"
    return Conn()


def evaluate(case):
    import ak.mtd_sql as M
    import ak.mcaller_sql as MS
    rows = [tuple(r) for r in case["rows"]]
    conds = case["conds"]
    kwargs = case.get("kwargs", {})
    f = []
    notes = set()
    # model
    sel = []
    for r in rows:
        v = t_and([eval_cond(c, r, notes) for c in conds] +
                  [eval_cond(["c", k, "=", val], r, notes) for k, val in sorted(kwargs.items())])
        if v is True:
            sel.append(r)
    order = case.get("order")
    if order == "asc":
        sel.sort(key=lambda r: r[0])
    elif order == "desc":
        sel.sort(key=lambda r: -r[0])
    scal = bool(case.get("scalars"))
    expected = [r[0] for r in sel] if scal else sel
    # real
    real = sqlite3.connect(":memory:")
    try:
        real.execute("CREATE TABLE tb (id INTEGER NOT NULL, n INTEGER, s TEXT, t TEXT, _n INTEGER, _s TEXT)")
        real.executemany("INSERT INTO tb VALUES (?,?,?,?,?,?)", [tuple(r) + (r[1], r[2]) for r in rows])
        log = _Log()
        conn = make_conn(real, log, bool(case.get("percent")))
        ctor_order = {"asc": "tb.id", "desc": "tb.id DESC"}.get(order) if case.get("order_in_ctor") else None
        call_kw = {k: dec_value(v) for k, v in kwargs.items()}
        if order and not case.get("order_in_ctor"):
            call_kw["_order_by"] = {"asc": "tb.id", "desc": "tb.id DESC"}[order]
        if scal:
            call_kw["_as_scalars"] = True
        # the SELECT ... FROM text is the caller's: plain; with a neutral 1:1 LEFT JOIN of a derived table that has a WHERE
        # of its own; with result columns that cannot name namedtuple fields (rows come back as plain tuples)
        sel_sql = SELECTS[(case.get("select") or 0) % len(SELECTS)]
        if case.get("select"):
            notes.add("select_text_variant_%d" % (case["select"] % len(SELECTS)))
        entry = case.get("entry", "list")
        got = None
        raised = None
        try:
            args = [to_arg(M, c) for c in conds]
            reuse = case.get("reuse") or 0
            if reuse:
                # condition objects are values: building a larger condition out of one (as its first or a later operand),
                # or using one in another request, leaves it as it was
                for a in args:
                    if isinstance(a, M.SqlFilterCondition):
                        always = ("tb.id", ">=", -10**12)
                        if reuse == 1:
                            M.SqlMethod._or(a, always)
                        elif reuse == 2:
                            M.SqlMethod._or(always, a, always)
                        else:
                            M.SqlMethod._or(M.SqlMethod._or(a, always), a)
                        notes.add("condition_object_also_used_inside_another_condition")
            if case.get("lock_once"):
                log.fail_next = True
                notes.add("database_locked_at_first_attempt")
            if entry.startswith("T_"):
                if entry.startswith("T_wrap"):
                    # SqlMethodT around an existing SqlMethod (which carries the default order)
                    mt = MS.SqlMethodT(M.SqlMethod(sel_sql, order_by=ctor_order))
                else:
                    mt = MS.SqlMethodT(sel_sql, order_by=ctor_order)
                entry = {"list": "list", "one": "one", "oon": "one_or_none"}[entry.split("_")[-1]]
                tbl = getattr(mt, entry)(conn, *args, **call_kw)
                got = list(tbl.r)
            else:
                m = M.SqlMethod(sel_sql, order_by=ctor_order)
                if case.get("poison") is not None:
                    # the same method object first serves a request that fails (invalid condition, unknown column, more
                    # than one record for one()): nothing of it may stick
                    pk, pentry = case["poison"][:2]
                    bad = [("tb.s", "LIKE", 5), ("tb.id", "IN", 3), ("tb.nosuch", "=", 1), ("tb.id", ">=", -10**12)][pk % 4]
                    # ... possibly after valid conditions of the same failing request
                    pre = [[], [("tb.id", "<", -10**12)], [("tb.n", "=", 1), "tb.s IS NULL"],
                           [M.SqlMethod._or(("tb.id", "IN", [-1, -2]))]][(case["poison"] + [0])[2] % 4]
                    try:
                        getattr(m, ["one", "one_or_none", "list"][pentry % 3])(conn, *pre, bad)
                    except Exception:   # noqa
                        pass
                    del log.calls[:]
                    notes.add("failed_request_on_the_same_method_object_before")
                if case.get("prior"):
                    # a successful earlier request on the same method object: the same filters, another order
                    pkw = {k: v for k, v in call_kw.items() if k != "_order_by"}
                    pkw["_order_by"] = {"asc": "tb.id", "desc": "tb.id DESC", "n": "tb.n, tb.id"}[case["prior"]]
                    try:
                        m.list(conn, *[to_arg(M, c) for c in conds], **pkw)
                    except Exception:   # noqa
                        pass
                    del log.calls[:]
                    notes.add("earlier_request_with_other_order_on_the_same_method_object")
                if entry == "list":
                    got = m.list(conn, *args, **call_kw)
                elif entry == "all_interleaved":
                    # the lazy result of all() is consumed while the same method object serves another request
                    it = iter(m.all(conn, *args, **call_kw))
                    head = []
                    for x in it:
                        head.append(x)
                        break
                    saved_calls = list(log.calls)
                    m.list(conn, ("tb.id", ">=", -10**12))
                    m.one_or_none(conn, ("tb.id", "=", -10**12 - 1))
                    log.calls[:] = saved_calls
                    got = head + list(it)
                    entry = "all"
                    notes.add("all_consumed_around_another_request")
                elif entry == "all":
                    got = list(m.all(conn, *args, **call_kw))
                elif entry == "one":
                    got = [m.one(conn, *args, **call_kw)]
                else:
                    r = m.one_or_none(conn, *args, **call_kw)
                    got = [] if r is None else [r]
        except ValueError as e:
            raised = e
        except Exception as e:   # noqa
            if case.get("lock_once") and isinstance(e, sqlite3.OperationalError) and "locked" in str(e):
                # the failure reached the caller, who simply asks again
                real.close()
                o2 = evaluate(dict(case, lock_once=False))
                o2.classes = sorted(set(o2.classes) | notes)
                return o2
            f.append(("query_raises_%s" % type(e).__name__, f"{e}; sql={log.calls[-1:] if log.calls else None}"))
            return Outcome(True, sorted(notes), f)
        # rows
        if raised is not None:
            ok = (entry == "one" and len(expected) != 1) or (entry == "one_or_none" and len(expected) > 1)
            if not ok:
                f.append(("unexpected_ValueError", f"{entry}: {raised}; expected rows {expected!r}"))
        else:
            if entry == "one" and len(expected) != 1:
                f.append(("one_did_not_raise", f"expected {len(expected)} rows, got {got!r}"))
            elif entry == "one_or_none" and len(expected) > 1:
                f.append(("one_or_none_did_not_raise", f"expected {len(expected)} rows, got {got!r}"))
            else:
                g = [x if scal else tuple(x) for x in got]
                if order:
                    same = g == expected
                else:
                    same = sorted(g, key=repr) == sorted(expected, key=repr)
                if not same:
                    kind = "wrong_order" if sorted(g, key=repr) == sorted(expected, key=repr) else \
                        "extra_rows" if set(map(repr, g)) - set(map(repr, expected)) else "missing_rows"
                    f.append(("rows_differ_" + kind, f"sql={log.calls[-1] if log.calls else None}; got {g!r}; "
                              f"expected {expected!r}"))
        # binding
        if len(log.calls) != 1:
            f.append(("not_exactly_one_statement", repr(log.calls)))
        else:
            sql, params = log.calls[0]
            ph = "%s" if case.get("percent") else "?"
            if sql.count(ph) != len(params):
                f.append(("placeholder_count_differs_from_params", f"{sql!r} {params!r}"))
            if MARK in sql:
                f.append(("value_text_inside_sql", sql))
            if not params_match(flatten_params(conds, kwargs), params):
                f.append(("bound_values_differ_or_misordered", f"{sql!r} {params!r} expected "
                          f"{flatten_params(conds, kwargs)!r}"))
            if case.get("percent") and "?" in sql:
                f.append(("wrong_placeholder_style", sql))
    finally:
        real.close()
    notes.add("entry_" + case.get("entry", "list"))
    if rows:
        notes.add("selected_none" if not sel else "selected_all" if len(sel) == len(rows) else "selected_some")
    if case.get("percent"):
        notes.add("percent_s_placeholders")
    nt = bool(notes & {"or_group", "empty_list", "none_in_list", "negative_op_on_null_cell"})
    return Outcome(nt, sorted(notes), f)


# ---------------------------------------------------------------------------

STR_BODIES = ["", "a", "A", "ab", "aB", "b%", "a_", "%", "_", "'", "''", "\"", "' OR 1=1 --", "; DROP TABLE tb;--",
              "x' AND '1'='1", "%a%", "NULL", "0", "1", "?", "%s", "a b", "\\", "a\\%"]


# values that spell an operator / keyword of the filter mini-language or of SQL: still data
KEYWORD_VALUES = ["IS NULL", "is null", "IS NOT NULL", "is not null", "Is Null", "NULL", "null", "IN", "NOT IN", "LIKE", "=", "!=",
                  "?", "%s", "", "None", "DEFAULT", "1=1", "tb.s", "s"]


def st_str():
    return st.sampled_from(KEYWORD_VALUES) | st.sampled_from(BLANK_VALUES) | st.sampled_from(STR_BODIES).map(lambda b: b + MARK) | st.sampled_from(STR_BODIES).map(lambda b: MARK + b) \
        | st.text("abAB%_' ", max_size=4).map(lambda b: b + MARK)


def st_int():
    # operands for the INTEGER columns: ints, and numbers that compare equal to ints but are of another type
    return st.integers(-3, 6) | st.integers(-10**9, 10**9) | st.sampled_from([0, 1, 2, 0.0, 1.0, 2.0, 5.0, True, False, 2.5])


BYTES_VALUES = ["", "61", "6162", "00ff", "27204f5220313d31", "4e554c4c"]


def st_operand(col, nullable=True):
    """a scalar operand: as st_colval, now and then a bytes value (a BLOB: one bound value, data like any other)"""
    return st_colval(col, nullable) | st_colval(col, nullable) | st_colval(col, nullable) | \
        st.sampled_from(BYTES_VALUES).map(lambda h: ["bytes", h])


def st_colval(col, nullable=True):
    base = st_int() if col in ("tb.id", "tb.n", "id", "n", "_n") else st_str()
    return (base | st.none()) if nullable else base


@st.composite
def st_cond(draw, depth=0):
    # None arguments are documented as ignorable at the top level only, not inside _or(...)
    kind = draw(st.sampled_from(["c", "c", "c", "c", "c2", "or", "static", "none"] if depth == 0 else
                                ["c", "c", "c2", "or", "static"] if depth < 2 else ["c", "c2"]))
    if kind == "none":
        return ["none"]
    if kind == "static":
        return ["static", draw(st.sampled_from(STATIC))]
    if kind == "or":
        subs = draw(st.lists(st_cond(depth + 1), max_size=3))
        kws = {}
        if draw(st.integers(0, 2)) == 0:
            k = draw(st.sampled_from(["n", "s", "t", "_n", "_s"]))
            kws[k] = draw(st_colval(k))
        return ["or", subs, kws]
    col = draw(st.sampled_from(COLS))
    istext = col in ("tb.s", "tb.t")

    def lst():
        items = draw(st.lists(st_operand(col, nullable=True), max_size=4))
        k = draw(st.sampled_from(["list", "tuple"]))
        return [k, items]
    if kind == "c2":
        return ["c2", col, draw(st.one_of(st_operand(col), st.just(None), st.builds(lambda: lst())))]
    ops = ["=", "!=", "IN", "NOT IN", "IS NULL", "IS NOT NULL", ">", "<", ">=", "<="] + (["LIKE", "NOT LIKE"] * 2 if istext else [])
    op = draw(st.sampled_from(ops))
    if op in ("=", "!="):
        val = draw(st.one_of(st_operand(col), st.builds(lambda: lst())))
    elif op in ("IN", "NOT IN") and not istext and draw(st.integers(0, 7)) == 0:
        lo = draw(st.integers(-1300, -3))
        val = ["range", [lo, lo + draw(st.sampled_from([999, 1000, 1001, 1002, 1500, 2001]))]]
    elif op in ("IN", "NOT IN"):
        if draw(st.integers(0, 3)) == 0:
            items = draw(st.lists(st_colval(col, nullable=False), max_size=4, unique=True))
            val = ["set", items]
        else:
            val = lst()
    elif op in ("IS NULL", "IS NOT NULL"):
        val = None
    elif op in ("LIKE", "NOT LIKE"):
        val = draw(st_str())
    else:
        val = draw(st_operand(col))
    opcase = draw(st.sampled_from(["upper", "lower", "title"]))
    op = {"upper": op, "lower": op.lower(), "title": op.title()}[opcase]
    c = ["c", col, op, val]
    if draw(st.integers(0, 5)) == 0:
        c.append("aslist")
    return c


@st.composite
def st_case(draw, max_conds=4, with_kwargs=True):
    nrows = draw(st.integers(0, 12))
    spool = draw(st.lists(st_str(), min_size=1, max_size=4))
    rows = []
    for i in range(nrows):
        rows.append([i * 2 + draw(st.integers(0, 1)) - 3,
                     draw(st.none() | st.integers(-3, 6) | st_int()),
                     draw(st.none() | st.sampled_from(spool) | st.sampled_from(spool) | st_str()),
                     draw(st.none() | st.sampled_from(spool) | st.sampled_from(spool) | st_str())])
    conds = draw(st.lists(st_cond(), min_size=min(1, max_conds), max_size=max_conds) if max_conds < 4 else
                 st.lists(st_cond(), max_size=max_conds))

    def relate(c):
        # LIKE patterns / compared strings derived from values that are in the table: '_' wildcards, other letter case,
        # '%' prefixes / suffixes - so that the pattern semantics decides which rows are selected
        if c[0] == "or":
            for sub in c[1]:
                relate(sub)
        elif c[0] == "c" and isinstance(c[3], str) and draw(st.booleans()):
            v = draw(st.sampled_from(spool))
            how = draw(st.sampled_from(["same", "swapcase", "underscore", "prefix%", "%suffix", "upper"]))
            if how == "swapcase":
                v = v.swapcase()
            elif how == "upper":
                v = v.upper()
            elif how == "underscore" and v:
                i = draw(st.integers(0, len(v) - 1))
                v = v[:i] + "_" + v[i + 1:]
            elif how == "prefix%" and v:
                v = v[:draw(st.integers(0, len(v) - 1))] + "%"
            elif how == "%suffix" and v:
                v = "%" + v[draw(st.integers(0, len(v) - 1)):]
            c[3] = v
    for c in conds:
        relate(c)
    kwargs = {}
    for k in draw(st.lists(st.sampled_from(["n", "s", "t", "id", "_n", "_s"]), max_size=2 if with_kwargs else 0, unique=True)):
        kwargs[k] = draw(st.one_of(st_colval(k), st.lists(st_colval(k), max_size=3).map(lambda x: ["list", x])))
    return {"rows": rows, "conds": conds, "kwargs": kwargs,
            "order": draw(st.sampled_from([None, "asc", "desc"])), "order_in_ctor": draw(st.booleans()),
            "scalars": draw(st.integers(0, 3)) == 0,
            "entry": draw(st.sampled_from(["list", "list", "all", "one", "one_or_none", "T_list", "T_wrap_list", "T_wrap_list",
                                           "T_one", "T_wrap_oon", "all_interleaved", "all_interleaved"])),
            "percent": draw(st.integers(0, 3)) == 0,
            "poison": draw(st.none() | st.none() | st.tuples(st.integers(0, 3), st.integers(0, 2), st.integers(0, 3)).map(list)),
            "reuse": draw(st.sampled_from([0, 0, 1, 2, 3])),
            "select": draw(st.sampled_from([0, 0, 0, 1, 2, 3])),
            "prior": draw(st.sampled_from([None, None, "asc", "desc", "n"])),
            "lock_once": draw(st.integers(0, 5)) == 0}


def parts(tier):
    k = 1 if tier == "quick" else 40
    return [Part("queries", evaluate, strategy=st_case, examples=8000 * k),
            Part("single_condition", evaluate, strategy=lambda: st_case(max_conds=1, with_kwargs=False), examples=6000 * k,
                 note="one condition (or one OR-group) per query, so that its own semantics decides the selected rows")]


TECHNIQUE = "differential property-based testing (Hypothesis): generated condition trees and tables run through SqlMethod on sqlite3 and through an independent three-valued-logic evaluator; a recording cursor checks placeholder/parameter binding"
LEVEL_TEXT = ("Exploration: ~8k generated (table, condition tree, options) cases per quick run (320k thorough); returned rows are "
              "compared with a three-valued reference evaluator and the executed statement is inspected for placeholder count, "
              "parameter order and absence of value text.")
LEVEL_NOTE = "Trusted: sqlite3 as the executing engine, the 60-line reference evaluator, Hypothesis. Type-respecting values only."
