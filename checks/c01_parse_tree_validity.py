"""C01 - every parse result is a valid derivation of the user's grammar.

Oracle (validity predicate, not an expected tree): root = start symbol; every inner node with the names of
its children is literally one of the user's alternatives (childless node <-> empty alternative); no helper
symbol; leaves left to right = the non-skipped tokens the layout generator rendered.
"""
from hypothesis import strategies as st

from vlib import grammar as gk
from vlib.core import Outcome, Part
from vlib.parserguard import parse_guarded

ID = "C01"
RULE = ("constructive random grammars (<=5 non-terminals, <=4 alternatives - 6-7 in the '>5 suffix rules' class -, <=4 "
        "symbols per alternative; operators that force common prefixes, prefix-is-itself-an-alternative, nested prefixes, "
        "same-first-token alternatives, empty alternatives; never left-recursive by construction), concrete names from four "
        "pools in generated order, productions declared top-down / bottom-up / shuffled, synonyms and keywords on/off, explicit or default start symbol, both smart_factorization "
        "settings for every case; per grammar 4-10 inputs of <=12 tokens: sampled sentences, one-token mutations and random "
        "token strings, rendered with generated blanks / newlines / comments / multi-line comments, as str or list of lines. "
        "Part token_stream: a second tokenizer family with four keyword source types whose lexeme sets overlap (WORD, LABEL = "
        "word before ':', ATWORD = word behind '@', NUM), 5 keyword sets x 4 synonym maps, texts of 1-12 pieces, grammar "
        "S -> ITEM S | empty with one alternative per producible token name; leaves compared with an independent tokenizer. "
        "Non-trivial = a returned tree for a grammar that has a common-prefix group or a parse-table conflict; distinct by "
        "(grammar, names, tokens, setting)."
        " Also: parsers built as objects of a user's LLParser subclass after same-named sibling classes used other grammars. Part shared_heads: one symbol with 4-7 alternatives 'k SUB tail' whose SUBs are non-terminals of 1, 2 and 3 tokens, same-head alternatives not adjacent (two groups separated by an alternative that starts differently, or any order), so that several switches between alternatives happen on one stack entry.")
ASSUMPTIONS = [
    "ParsingError is always an acceptable outcome here (acceptance is judged by C02)",
    "exceptions from the constructor mean 'grammar not accepted' and are only counted (exactness of GrammarIsRecursive is C03)",
    "template productions (ListProds / MapProds / ProdSequence) are exercised by C05, not here",
]


def _parser_subclass(L):
    """a user's parser class: LLParser subclass whose constructor supplies the tokenizer (the documented way of use);
    every call makes a new class with the same name"""
    class GeneratedParser(L.LLParser):
        def __init__(self, prods, **kw):
            super().__init__(gk.TOKENIZER, productions=prods, **kw)
    return GeneratedParser


def build_parser(L, conc, tokcfg, smart, explicit_start=True, decl=None, via=None):
    """decl: declaration order of the productions dict - None / 'topdown', 'bottomup' or a list of ints (shuffle key);
    via: None - LLParser itself; 'subclass' - an object of a user's subclass, created after an object of a same-named
    sibling class (and of the very same class) with another grammar for the same start symbol"""
    names = list(conc["prods"])
    if decl == "bottomup":
        names.reverse()
    elif isinstance(decl, list):
        names = [n for _, n in sorted(zip((decl * len(names))[:len(names)], names), key=lambda kv: kv[0])]
    prods = {a: [tuple(alt) for alt in conc["prods"][a]] for a in names}
    kw = dict(tokcfg)
    if explicit_start or conc["start"] != "E":
        kw["start_symbol_name"] = conc["start"]
    if via == "subclass":
        word = conc["all_names"]["WORD"] if "all_names" in conc else "WORD"
        decoy = {conc["start"]: [(word, word, word)]}
        _parser_subclass(L)(decoy, smart_factorization=smart, **kw)
        cls = _parser_subclass(L)
        cls(decoy, smart_factorization=smart, **kw)
        return cls(prods, smart_factorization=smart, **kw)
    return L.LLParser(gk.TOKENIZER, productions=prods, smart_factorization=smart, **kw)


def concrete_tokens(conc, toks):
    """[(kind, lexidx)] -> [(terminal name, lexeme)]"""
    names = {k: n for n, k in conc["kinds"].items()}
    out = []
    for kind, li in toks:
        lex = gk.lexemes_for(kind)
        out.append((names.get(kind, conc["all_names"].get(kind, kind)), lex[li % len(lex)]))
    return out


def check_tree(root, conc, tokens):
    """-> list of findings for a tree returned by parse(do_cleanup=False)"""
    f = []
    prods = {a: {tuple(alt) for alt in alts} for a, alts in conc["prods"].items()}
    if root.name != conc["start"]:
        f.append(("root_is_not_start_symbol", f"root {root.name!r}, start {conc['start']!r}"))
    leaves = []
    stack = [root]
    nodes = 0
    while stack:
        t = stack.pop()
        nodes += 1
        if nodes > 100000:
            f.append(("tree_too_large_or_cyclic", ""))
            break
        name = t.name
        if "__" in str(name) or name in ("$START$", "$END$"):
            f.append(("helper_symbol_in_tree", f"node {name!r}"))
            continue
        if name in prods:
            kids = t.value if t.value is not None else []
            if not isinstance(kids, list):
                f.append(("inner_node_value_not_a_list", f"{name!r}: {kids!r}"))
                continue
            if any(not hasattr(k, "name") for k in kids):
                f.append(("child_of_inner_node_is_not_a_tree_element", f"{name!r}: {kids!r}"[:300]))
                continue
            sig = tuple(k.name for k in kids)
            if sig not in prods[name]:
                kind = "childless_node_without_empty_alternative" if not sig else "node_is_not_a_user_production"
                f.append((kind, f"{name!r} -> {sig!r}; user alternatives {sorted(prods[name])!r}"))
            stack.extend(reversed(kids))
        else:
            leaves.append((t.name, t.value))
    if not f and leaves != [(n, v) for n, v in tokens]:
        f.append(("leaves_differ_from_input_tokens", f"leaves {leaves!r}; tokens {tokens!r}"))
    return f


def grammar_classes(G, conc):
    cl = set()
    for a, alts in conc["prods"].items():
        firsts = [alt[0] if alt else None for alt in alts]
        for i in range(1, len(alts)):
            if alts[i] and alts[i - 1] and alts[i][0] == alts[i - 1][0]:
                cl.add("common_prefix_group")
        for x in alts:
            for y in alts:
                if x != y and len(x) < len(y) and list(y[:len(x)]) == list(x) and x:
                    cl.add("alternative_is_prefix_of_another")
        # nested: three alternatives sharing prefixes of different lengths
        for x in alts:
            for y in alts:
                for z in alts:
                    if len({tuple(x), tuple(y), tuple(z)}) == 3 and len(x) >= 2 and len(y) >= 2 and z and \
                            x[:2] == y[:2] and z[0] == x[0] and (len(z) < 2 or z[1] != x[1]):
                        cl.add("nested_common_prefixes")
        run = 1
        for i in range(1, len(firsts)):
            run = run + 1 if (firsts[i] is not None and firsts[i] == firsts[i - 1]) else 1
            if run >= 6:
                cl.add("group_of_6_or_more")
        if [] in alts or () in alts:
            cl.add("empty_alternative")
    return cl


def evaluate(case):
    import ak.llparser as L
    tokcfg, names = gk.tok_config(case["syn"], case["kw"])
    conc = gk.rename(case["g"], case["pool"], case["perm"], names)
    conc["all_names"] = names
    G = gk.Grammar(conc["prods"], conc["start"], set(conc["terms"]))
    classes = grammar_classes(G, conc)
    f = []
    evals = 0
    nt = False
    key_extra = []
    for smart in (True, False):
        try:
            parser = build_parser(L, conc, tokcfg, smart, case.get("explicit_start", True), case.get("decl"),
                                  case.get("via"))
        except L.GrammarIsRecursive:
            classes.add("constructor_rejects_recursive")
            continue
        except L.GrammarError as e:
            classes.add("constructor_rejects_other")
            f.append(("constructor_rejects_wellformed_grammar_GrammarError", f"{conc['prods']!r}: {str(e)[-300:]}"))
            continue
        except Exception as e:   # noqa
            f.append(("constructor_raises_" + type(e).__name__, f"{conc['prods']!r}: {e}"))
            continue
        amb = parser.is_ambiguous()
        if amb:
            classes.add("table_conflict")
        plan = [(inp, None) for inp in case["inputs"]]
        probe = case.get("probe")
        if probe:
            # parse(text, start_symbol_name=X) for another symbol X, interleaved with ordinary parses of sentences of X:
            # the override holds for that one call only, whatever its outcome
            xc = gk.rename(dict(case["g"], start=probe["sym"]), case["pool"], case["perm"], names)["start"]
            pi = probe["inputs"]
            plan += [(pi[0], xc), (pi[1], None), (pi[1], xc), (pi[0], None)]
            classes.add("start_symbol_override_probe")
        for inp, override in plan:
            tokens = concrete_tokens(conc, inp["toks"])
            text, _pos = gk.render(tokens, inp["seps"])
            src = text.split("\n") if inp.get("as_list") else text
            if inp.get("as_list") == "nested_gen":
                # the text is a lazy iterable of lines; while it is being consumed its producer parses another text with
                # the same parser object (an include-like construct)
                other = case["inputs"][(inp.get("nest_at", 0) + 1) % len(case["inputs"])]
                other_text = gk.render(concrete_tokens(conc, other["toks"]), other["seps"])[0]
                nested_text = other_text if inp.get("nest_at", 0) % 2 else "a /* b"

                def _lines(lines=text.split("\n"), at=inp.get("nest_at", 0), nested_text=nested_text):
                    for i, ln in enumerate(lines):
                        if i == at % max(1, len(lines)):
                            # another (often valid) text, or a rejected one - under a divergence monitor of its own
                            parse_guarded(L, parser, nested_text, len(other["toks"]) + 4, budget=40000, do_cleanup=False)
                        yield ln
                src = _lines()
                classes.add("nested_parse_while_lines_are_consumed")
            if inp.get("poison") is not None:
                # a text the parser must reject, on the same parser object, right before
                bad = ["a /* never closed", "a $ b", text[:len(text) // 2] + " /*", "", "( ( ("][inp["poison"] % 5]
                parse_guarded(L, parser, bad, 8, budget=20000, do_cleanup=False)      # outcome irrelevant, but must not hang
                classes.add("rejected_text_parsed_before")
            if override is not None:
                kind, res, stt = parse_guarded(L, parser, src, len(tokens), budget=40000, do_cleanup=False,
                                               start_symbol_name=override)
                if kind == "tree":
                    for b, d in check_tree(res, dict(conc, start=override), tokens):
                        f.append((b + "_with_start_symbol_override", f"smart_factorization={smart} grammar={conc['prods']!r} "
                                  f"override={override!r} text={text!r}: {d}"))
                evals += 1
                continue
            kind, res, stt = parse_guarded(L, parser, src, len(tokens), budget=40000, do_cleanup=False)
            evals += 1
            if kind == "tree":
                ff = check_tree(res, conc, tokens)
                for b, d in ff:
                    f.append((b, f"smart_factorization={smart} grammar={conc['prods']!r} start={conc['start']!r} "
                              f"text={text!r}: {d}"))
                classes.add("tree_returned")
                if "common_prefix_group" in classes or amb:
                    nt = True
                    key_extra.append([smart, inp["toks"]])
                if amb:
                    classes.add("tree_from_ambiguous_table")
            elif kind == "parsing_error":
                classes.add("parsing_error")
            elif kind == "lexical_error":
                f.append(("unexpected_LexicalError", f"text={text!r}: {res}"))
            elif kind == "diverged":
                f.append(("parse_diverges", f"smart_factorization={smart} grammar={conc['prods']!r} text={text!r}: {res}"))
            elif kind == "inconclusive":
                classes.add("inconclusive_push_budget")
            else:
                import traceback
                tb = traceback.extract_tb(res.__traceback__)[-1]
                f.append(("parse_raises_%s_in_%s" % (type(res).__name__, tb.name),
                          f"smart_factorization={smart} grammar={conc['prods']!r} text={text!r}: {res}"))
            if len(f) > 3:
                break
    if case["syn"]:
        classes.add("synonyms")
    if case.get("via"):
        classes.add("parser_is_object_of_user_subclass")
    if case["kw"] and any(k.startswith("KW_") for k in case["g"]["terms"]):
        classes.add("keyword_terminals")
    key = [conc["prods"], conc["start"], key_extra]
    return Outcome(nt, sorted(classes), f[:4], key=key, evals=evals)


# ---------------------------------------------------------------------------

@st.composite
def st_inputs(draw, G, g, n_inputs, max_tokens=12, multiline=True):
    """inputs for abstract grammar g (Grammar G built on abstract names)"""
    terms = list(g["terms"])
    inputs = []
    for _ in range(n_inputs):
        mode = draw(st.sampled_from(["sentence", "sentence", "sentence", "mutation", "mutation", "random"]))
        toks = None
        if mode != "random":
            toks = gk.sample_sentence(draw, G, budget=max_tokens)
            if toks is not None and len(toks) > max_tokens:
                toks = None
        if toks is None:
            mode = "random"
            toks = draw(st.lists(st.sampled_from(terms + [draw(st.sampled_from(gk.TERMINAL_KINDS[:7]))]),
                                 max_size=min(8, max_tokens)))
        elif mode == "mutation":
            toks = list(toks)
            op = draw(st.sampled_from(["del", "ins", "rep", "swap", "dup"]))
            if op == "del" and toks:
                toks.pop(draw(st.integers(0, len(toks) - 1)))
            elif op == "ins":
                toks.insert(draw(st.integers(0, len(toks))), draw(st.sampled_from(terms)))
            elif op == "rep" and toks:
                toks[draw(st.integers(0, len(toks) - 1))] = draw(st.sampled_from(terms))
            elif op == "swap" and len(toks) > 1:
                i = draw(st.integers(0, len(toks) - 2))
                toks[i], toks[i + 1] = toks[i + 1], toks[i]
            elif op == "dup" and toks:
                i = draw(st.integers(0, len(toks) - 1))
                toks.insert(i, toks[i])
        pairs = [[k, draw(st.integers(0, 7))] for k in toks]
        concrete = [(k, gk.lexemes_for(k)[li % len(gk.lexemes_for(k))]) for k, li in pairs]
        seps = draw(gk.st_layout(concrete, multiline=multiline))
        inputs.append({"toks": pairs, "seps": seps, "as_list": draw(st.integers(0, 3)) == 0, "src": mode,
                       "poison": draw(st.none() | st.none() | st.none() | st.integers(0, 4))})
    return inputs


@st.composite
def st_shared_head_grammar(draw):
    """one symbol with 4-7 alternatives `k SUB tail` whose SUBs are non-terminals of different token lengths (w | w w | w w w),
    in any order and mixed with alternatives that start differently: alternatives with the same head are not adjacent, several
    of them meet in one parse-table cell and the parser has to switch between them more than once on one stack entry"""
    ts = draw(st.permutations([k for k in gk.TERMINAL_KINDS if not k.startswith("KW_")]))
    k, w, z = ts[0], ts[1], ts[2]
    tails = list(ts[3:3 + draw(st.integers(2, 4))])
    subs = {"N2": [[w, w]], "N3": [[w]], "N4": [[w, w, w]]}
    if draw(st.booleans()):
        subs["N4"] = [[w, "N3"]]
    use = ["N2", "N3"] + (["N4"] if draw(st.booleans()) else [])
    alts = []
    if draw(st.booleans()):
        # two groups of 'k SUB tail' alternatives separated by an alternative that starts differently; the second group takes up
        # SUBs of the first one with other tails, in another order
        t1, t2 = tails[:len(tails) // 2], tails[len(tails) // 2:]
        for grp_tails in (t1, t2):
            for sub in draw(st.permutations(use))[:draw(st.integers(2, len(use)))]:
                alts.append([k, sub, draw(st.sampled_from(grp_tails))])
            if grp_tails is t1:
                alts.append(["N5", draw(st.sampled_from(tails))])
    else:
        for _ in range(draw(st.integers(4, 7))):
            if draw(st.integers(0, 4)) == 0:
                a = ["N5", draw(st.sampled_from(tails))]
            else:
                a = [k, draw(st.sampled_from(use)), draw(st.sampled_from(tails))]
            if a not in alts:
                alts.append(a)
    prods = {"N0": [["N1", z]] if draw(st.booleans()) else [["N1"]], "N1": alts}
    for n in use:
        prods[n] = subs[n]
    if any(a[0] == "N5" for a in alts):
        prods["N5"] = [[z]] if draw(st.booleans()) else [[k, z]]
    order = draw(st.permutations(sorted(prods)))
    prods = {n: prods[n] for n in order}
    terms = sorted({x for al in prods.values() for a in al for x in a if x not in prods})
    return {"prods": prods, "start": "N0", "terms": terms}


@st.composite
def st_case(draw, max_tokens=12, shared_head=False):
    kw = draw(st.booleans())
    g = draw(st_shared_head_grammar() if shared_head else gk.st_grammar())
    if not kw:
        # without the keywords table 'if' is an ordinary WORD: replace keyword kinds by other kinds
        repl = [k for k in gk.TERMINAL_KINDS if not k.startswith("KW_") and k not in g["terms"]]
        mp = {}
        for t in g["terms"]:
            if t.startswith("KW_"):
                mp[t] = repl.pop()
        if mp:
            g = {"prods": {a: [[mp.get(s, s) for s in alt] for alt in alts] for a, alts in g["prods"].items()},
                 "start": g["start"], "terms": [mp.get(t, t) for t in g["terms"]]}
            for a in g["prods"]:
                dedup = []
                for alt in g["prods"][a]:
                    if alt not in dedup:
                        dedup.append(alt)
                g["prods"][a] = dedup
    G = gk.Grammar(g["prods"], g["start"], set(g["terms"]))
    inputs = draw(st_inputs(G, g, draw(st.integers(4, 10)), max_tokens=max_tokens))
    for inp in inputs:
        if inp["as_list"] and draw(st.booleans()):
            inp["as_list"] = "nested_gen"
            inp["nest_at"] = draw(st.integers(0, 5))
    probe = None
    others = [a for a in g["prods"] if a != g["start"]]
    if others and draw(st.booleans()):
        x = draw(st.sampled_from(sorted(others)))
        G2 = gk.Grammar(g["prods"], x, set(g["terms"]))
        probe = {"sym": x, "inputs": draw(st_inputs(G2, g, 2, max_tokens=max_tokens))}
    return {"g": g, "probe": probe, "pool": draw(st.integers(0, 4)), "perm": draw(st.permutations(list(range(6)))),
            "syn": draw(st.booleans()), "kw": kw, "explicit_start": draw(st.booleans()), "inputs": inputs,
            "decl": draw(st.sampled_from([None, "bottomup", "shuffle"]).flatmap(
                lambda d: st.lists(st.integers(0, 9), min_size=6, max_size=6) if d == "shuffle" else st.just(d))),
            "via": draw(st.sampled_from([None, None, "subclass"]))}


def eval_token_stream(case):
    """the leaves of the tree are exactly the non-skipped tokens, names and values: grammar S -> ITEM S | empty with one ITEM
    alternative per token name the configuration can produce; the expected token list comes from vlib.grammar.ref_tokenize2"""
    import ak.llparser as L
    syn = dict(gk.TOK2_SYNONYMS[case["syn"] % len(gk.TOK2_SYNONYMS)])
    kws = {k: v for k, v in gk.TOK2_KEYWORD_SETS[case["kw"] % len(gk.TOK2_KEYWORD_SETS)].items()}
    # keywords are looked up by the name *after* synonyms were applied
    kws = {(syn.get(n, n), v): k for (n, v), k in kws.items()}
    names = []
    for n, _ in gk.TOKENIZER2_GROUPS:
        if n in ("SPACE", "COMMENT"):
            continue
        n2 = syn.get(n, n)
        if n2 not in names:
            names.append(n2)
    for k in kws.values():
        if k not in names:
            names.append(k)
    order = case["order"]
    names = [n for _, n in sorted(zip((order * len(names))[:len(names)], names), key=lambda kv: kv[0])]
    prods = {"S": [("ITEM", "S"), ()], "ITEM": [(n,) for n in names]}
    # skipped token names: the default (SPACE, COMMENT) or additionally a type that is also a keyword source - the
    # keyword tokens made from it are tokens of their own and are not skipped
    skip = {"SPACE", "COMMENT"} | ({case["skip"]} if case.get("skip") in names else set())
    text = case["text"]
    f = []
    classes = set(["token_stream"])
    expected = gk.ref_tokenize2(text, syn, kws)
    src = text.split("\n") if case.get("as_list") else text
    evals = 0
    nt = False
    for smart in (True, False):
        try:
            parser = L.LLParser(gk.TOKENIZER2, productions=prods, synonyms=syn or None, keywords=kws or None, start_symbol_name="S",
                                skip_tokens=(None if skip == {"SPACE", "COMMENT"} and case.get("skip") is None else skip),
                                smart_factorization=smart)
        except Exception as e:   # noqa
            f.append(("token_stream_constructor_raises_" + type(e).__name__, f"syn={syn!r} kw={kws!r}: {e}"))
            break
        evals += 1
        try:
            root = parser.parse(src, do_cleanup=False)
        except L.LexicalError:
            if expected is not None:
                f.append(("lexical_error_on_tokenizable_text", f"text={text!r}"))
            classes.add("lexical_error")
            continue
        except Exception as e:   # noqa
            f.append(("token_stream_parse_raises_" + type(e).__name__, f"text={text!r} syn={syn!r} kw={kws!r}: {e}"))
            continue
        if expected is None:
            f.append(("untokenizable_text_accepted", f"text={text!r}"))
            continue
        toks = [(n, v) for n, v in expected if n not in skip]
        if len(skip) > 2:
            classes.add("extra_skipped_token_type")
        conc = {"prods": {"S": [["ITEM", "S"], []], "ITEM": [[n] for n in names]}, "start": "S"}
        ff = check_tree(root, conc, toks)
        f.extend((b, d + f"; text={text!r} syn={syn!r} kw={kws!r}") for b, d in ff)
        kw_names = set(kws.values())
        srcs = {n for (n, _v) in kws}
        if len(srcs) >= 2 and any(n in kw_names for n, _ in toks):
            classes.add("keyword_with_several_source_types")
            # a lexeme that is a keyword for one source type appears as a token of another type
            vals = {v: n for (n, v) in kws}
            if any(v in vals and n not in kw_names for n, v in toks):
                classes.add("keyword_lexeme_as_token_of_other_type")
                nt = True
    return Outcome(nt, sorted(classes), f[:4], key=[text, case["syn"], case["kw"]], evals=evals,
                   sample={"text": text, "synonyms": syn, "keywords": {"%s/%s" % k: v for k, v in kws.items()}})


@st.composite
def st_token_stream_case(draw):
    words = ["if", "end", "do", "a", "iff", "If", "x_y", "done"]
    nums = ["0", "007", "7", "42"]
    piece = st.one_of(
        st.sampled_from(words), st.sampled_from(words).map(lambda w: w + ":"), st.sampled_from(words).map(lambda w: "@" + w),
        st.sampled_from(words).map(lambda w: "@" + w + ":"), st.sampled_from(nums), st.sampled_from([",", ";", "+", ":", "@"]),
        st.sampled_from([" ", "  ", "\t", "\n", " # if end\n", "\n\n"]))
    pieces = draw(st.lists(piece, min_size=1, max_size=12))
    sep = draw(st.sampled_from([" ", " ", ""]))
    text = sep.join(pieces)
    if draw(st.integers(0, 9)) == 0:
        text += draw(st.sampled_from(["$", "?", " ~"]))
    return {"text": text, "syn": draw(st.integers(0, 3)), "kw": draw(st.integers(0, 4)),
            "order": draw(st.lists(st.integers(0, 9), min_size=5, max_size=5)), "as_list": draw(st.booleans()),
            "skip": draw(st.sampled_from([None, None, "", "WORD", "NUM", "LABEL", "ATWORD", ","]))}


def parts(tier):
    ts = Part("token_stream", eval_token_stream, strategy=st_token_stream_case, examples=4000 if tier == "quick" else 120000,
              note="leaves vs an independent reference tokenizer; keyword source types with overlapping lexemes, synonyms")
    if tier == "quick":
        return [Part("grammars", evaluate, strategy=st_case, examples=5000), ts,
                Part("shared_heads", evaluate, strategy=lambda: st_case(shared_head=True), examples=800,
                     note="4-7 non-adjacent alternatives 'k SUB tail' with SUBs of different token lengths")]
    return [Part("grammars", evaluate, strategy=st_case, examples=120000),
            Part("grammars_long_inputs", evaluate, strategy=lambda: st_case(max_tokens=16), examples=40000), ts,
            Part("shared_heads", evaluate, strategy=lambda: st_case(shared_head=True), examples=20000,
                 note="4-7 non-adjacent alternatives 'k SUB tail' with SUBs of different token lengths")]


TECHNIQUE = "property-based testing (Hypothesis): constructive grammar generator + sentence sampler + layout renderer; every returned tree judged by a derivation-validity predicate against the user grammar and the rendered token list"
LEVEL_TEXT = ("Exploration: ~2.5k generated grammars x ~7 inputs x 2 factorisation settings per quick run (160k grammars thorough); each "
              "returned tree is checked node by node against the user's alternatives and leaf by leaf against the rendered tokens. "
              "Grammar and input sizes are bounded (<=5 non-terminals, <=16 tokens).")
LEVEL_NOTE = "Trusted: vlib/grammar.py (generator, renderer), the 40-line validity predicate, the divergence monitor (vlib/parserguard.py)."
