"""Fake urllib opener / response used by the HTTP checks (C16, C17)."""


class FakeResponse:
    def __init__(self, method, code, data):
        self._data = data
        self.data = None
        self._method = method
        self.code = code
        self.status = code

    def __enter__(self):
        return self

    def __exit__(self, *a):
        return False

    def read(self):
        return self._data

    def getheaders(self):
        return []


class FakeOpener:
    """records every urllib.request.Request it is asked to open"""

    def __init__(self):
        self.requests = []
        self.next_body = b""
        self.fail_next = None     # HTTP status (int) or "url": the next request is recorded, then fails

    def open(self, request, *a, **kw):
        self.requests.append(request)
        if self.fail_next is not None:
            import urllib.error
            kind, self.fail_next = self.fail_next, None
            if kind == "url":
                raise urllib.error.URLError("connection refused")
            import email.message
            import io

            class _ErrBody(io.BytesIO):       # what urllib hands out as err.fp: the http response object
                _method = request.get_method()

                def getheaders(self):
                    return []
            raise urllib.error.HTTPError(request.get_full_url(), int(kind), "failure", email.message.Message(),
                                         _ErrBody(b'{"error": "failure"}'))
        return FakeResponse(request.get_method(), 200, self.next_body)


def install(conn):
    """replace the opener of the implementation object behind `conn`"""
    op = FakeOpener()
    conn.conn_impl.opener = op
    return op


def speedup_ssl():
    # building a default SSL context costs ~30 ms (loads the CA store); the opener is replaced by a fake
    # one right after construction, so hand out one shared context instead (stdlib, not code under test)
    import ssl as _ssl
    if not getattr(_ssl.create_default_context, "_verif_cached", False):
        _orig = _ssl.create_default_context
        _ctx = []

        def _cached(*a, **kw):
            if not _ctx:
                _ctx.append(_orig(*a, **kw))
            return _ctx[0]
        _cached._verif_cached = True
        _ssl.create_default_context = _cached
        _ssl._create_default_https_context = _cached
        import http.client as _hc
        if hasattr(_hc, "_create_https_context"):
            _hc_orig = _hc._create_https_context
            _hctx = []

            def _hc_cached(http_version):
                if not _hctx:
                    _hctx.append(_hc_orig(http_version))
                return _hctx[0]
            _hc._create_https_context = _hc_cached
