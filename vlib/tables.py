"""Generator, builder and text-level oracle for PPTable cases (shared by C10, C12, C13).

A case is plain data:
{
 "kind": "tuple" | "namedtuple" | "dict" | "tuple_nofields",
 "fields": ["f0", ...],
 "records": [[v, ...], ...],
 "cols": None | [ {"f": field_idx, "min": int|None, "max": int|None, "brk": bool, "mod": None|"val"|"name"|"full",
                   "hidden": bool}, ... ],         # None -> no column section in fmt
 "titles": {field_name: str | [items]},
 "enums": {field_name: {"values": [[val, name, syntax|None], ...], "missing": None | [name, syntax]}},
 "header": None | str, "footer": None | str,
 "limits": None | [n, m], "limits_via": "fmt" | "arg",
 "skip": [field_name, ...],
}
"""
import collections
import re

from hypothesis import strategies as st

VAL_ALPHABET = "ab|+-. 1xyzé_"
SYNTAXES = [None, "name_good", "name_warn", "error", "value", "text",
            # names that are no accessors of the enum palette: ids of syntaxes of the colours configuration, unknown names
            "WARN", "OK", "NAME", "TABLE.BORDER", "nosuch"]


# ---------------------------------------------------------------------------
# building the real table
# ---------------------------------------------------------------------------

def col_fmt(case, c):
    name = case["fields"][c["f"]]
    s = name
    if c.get("mod"):
        s += "/" + c["mod"]
    if c.get("brk"):
        s += "!"
    if case["kind"] == "dict" and not case.get("no_value_path"):
        s += "<-[%s]" % name
    if c.get("hidden"):
        s += ":-1"
    elif c.get("min") is not None:
        if c.get("max") is None or c["max"] == c["min"]:
            s += ":%d" % c["min"]
        else:
            s += ":%d-%d" % (c["min"], c["max"])
        if c.get("annot") is not None:
            # "(n)": the width a printed table reports next to the range; informational only when read back
            s += "(%d)" % c["annot"]
    return s


def fmt_string(case, with_limits=True):
    parts = []
    if case.get("cols") is not None:
        parts.append(",".join(col_fmt(case, c) for c in case["cols"]))
    else:
        parts.append("")
    if with_limits and case.get("limits") is not None and case.get("limits_via") == "fmt" and None not in case["limits"]:
        parts.append("%d:%d" % tuple(case["limits"]))
    s = ";".join(parts)
    return s if s else None


class Level(str, __import__("enum").Enum):
    """a str-mixin enum: the member IS the string 'high', its str() is 'Level.H'"""
    H = "high"
    L = "lo"
    E = ""


class Tag(str):
    """a str subclass with a text form of its own"""

    def __str__(self):
        return "<" + str.__str__(self) + ">"


def dv(v):
    """cell value of a case -> the object put into the record: {"$str": "enum", "i": n} / {"$str": "tag", "s": text}"""
    if isinstance(v, dict) and "$str" in v:
        return list(Level)[v["i"] % 3] if v["$str"] == "enum" else Tag(v["s"])
    return v


def make_records(case):
    case = dict(case, records=[[dv(v) for v in r] for r in case["records"]])
    recs = _make_records(case)
    # case["same_as"]: {index: earlier index} - these positions of the records list hold the very same row object
    for i, j in sorted((int(i), j) for i, j in (case.get("same_as") or {}).items()):
        if j < i < len(recs):
            recs[i] = recs[j]
    return recs


def _make_records(case):
    kind = case["kind"]
    if kind == "namedtuple":
        R = collections.namedtuple("R", case["fields"])
        return [R(*r) for r in case["records"]]
    if kind == "dict":
        return [dict(zip(case["fields"], r)) for r in case["records"]]
    return [tuple(r) for r in case["records"]]


def make_enum_types(P, case):
    out = {}
    for fname, e in (case.get("enums") or {}).items():
        d = {}
        for val, name, syn in e["values"]:
            d[val] = name if syn is None and not e.get("tuples") else (name, syn)
        if e.get("missing") is not None:
            d[P.PPEnumFieldType.MISSING] = tuple(e["missing"])
        out[fname] = P.PPEnumFieldType(d)
    return out


_CENTERED = {}


def _centered_type(P):
    """a user-defined field type (the documented extension point): values as the default type shows them, centred"""
    if _CENTERED.get("P") is not P:
        class Centered(P.FieldType):
            def make_desired_cell_ch_chunks(self, value, fmt_modifier, field_palette):
                chunks, _align = super().make_desired_cell_ch_chunks(value, fmt_modifier, field_palette)
                return chunks, P.ALIGN_CENTER
        _CENTERED.update(P=P, cls=Centered)
    return _CENTERED["cls"]


def ctor_kwargs(P, case, fmt=None, use_case_fmt=True):
    kw = {}
    if case["kind"] == "tuple":
        kw["fields"] = list(case["fields"])
    if use_case_fmt:
        fmt = fmt_string(case)
    if fmt is not None:
        kw["fmt"] = fmt
    if case.get("titles"):
        kw["fields_titles"] = {k: v for k, v in case["titles"].items()}
    ft = make_enum_types(P, case)
    for fn in case.get("centered") or []:
        if fn not in ft:
            ft[fn] = _centered_type(P)()
    if ft:
        kw["fields_types"] = ft
    if case.get("header") is not None:
        kw["header"] = case["header"]
    if case.get("footer") is not None:
        kw["footer"] = case["footer"]
    if case.get("limits") is not None and case.get("limits_via") == "arg":
        kw["limits"] = tuple(case["limits"])
    if case.get("skip"):
        kw["skip_columns"] = list(case["skip"])
    return kw


def line_text(C, ln):
    """lines produced by iterating a result are CHText objects or lists of chunks (consumers join them
    with CHText.join / CHText(...)); normalise through the public constructor"""
    return C.CHText(ln)


_TEMPLATES = {}


def build(P, case):
    if case.get("via_fmt_obj") and case["kind"] in ("tuple", "namedtuple") and case["records"]:
        # the way ak.mcaller_sql builds its result tables: one PPTableFormat template per process and format, handed to
        # every table through fmt_obj= (each table gets a clone)
        import json
        kw = ctor_kwargs(P, case)
        key = json.dumps([case["kind"], case["fields"], kw.get("fmt"), case.get("titles"), case.get("enums"),
                          case.get("centered")], sort_keys=True,
                         default=str)
        ent = _TEMPLATES.get(key)
        records = make_records(case)
        if ent is None or ent[0] is not P:
            tmpl = P.PPTableFormat.make(kw.get("fmt"), kw.get("fields"), kw.get("fields_types"), kw.get("fields_titles"),
                                        records[0])
            _TEMPLATES[key] = ent = (P, tmpl)
        kw2 = {k: v for k, v in kw.items() if k in ("header", "footer", "limits", "skip_columns")}
        return P.PPTable(records, fmt_obj=ent[1], **kw2)
    return P.PPTable(make_records(case), **ctor_kwargs(P, case))


# ---------------------------------------------------------------------------
# model
# ---------------------------------------------------------------------------

def visible_cols(case):
    """list of column dicts (with defaults filled in) that the table must show, in order"""
    if case.get("cols") is None:
        cols = [{"f": i, "min": None, "max": None, "brk": False, "mod": None} for i in range(len(case["fields"]))]
    else:
        cols = [c for c in case["cols"] if not c.get("hidden")]
    skip = set(case.get("skip") or [])
    return [c for c in cols if case["fields"][c["f"]] not in skip]


def col_bounds(c):
    if c.get("min") is None:
        return 1, 999
    return c["min"], (c["max"] if c.get("max") is not None else c["min"])


def title_lines(case, fname):
    t = (case.get("titles") or {}).get(fname)
    if t is None:
        items = [fname]
    elif isinstance(t, str):
        items = [t]
    else:
        items = t
    out = []
    for it in items:
        if isinstance(it, str):
            out.extend(x.strip() for x in it.split("\n"))
        else:
            out.append(str(it))
    return out


def cell_ok(cell, expected, w):
    if len(cell) != w:
        return False
    n = len(expected)
    if n <= w:
        return any(cell == " " * k + expected + " " * (w - k - n) for k in range(w - n + 1))
    d = min(3, w)
    return cell == expected[:w - d] + "." * d


def enum_expected(case, fname, value, mod):
    """-> list of acceptable full cell texts (before padding / truncation)"""
    e = case["enums"][fname]
    names = {}
    for val, name, syn in e["values"]:
        names[_k(val)] = name
    if value is None and _k(None) not in names:
        return ["None"]
    if _k(value) in names:
        name = names[_k(value)]
    else:
        name = e["missing"][0] if e.get("missing") is not None else "<???>"
    sv = str(value)
    if mod == "val":
        return [sv]
    if mod == "name":
        return [name]
    return [" " * p + sv + " " + name for p in range(0, 60)]


def _k(v):
    return (type(v).__name__, v)


def expected_cell_texts(case, c, rec):
    fname = case["fields"][c["f"]]
    v = rec[c["f"]]
    if fname in (case.get("enums") or {}):
        return enum_expected(case, fname, v, c.get("mod"))
    return [str(dv(v))]


def body_model(case, cols):
    """-> list of ('rec', idx) | ('brk',) for all records with break lines"""
    lines = []
    prev = None
    brk = [c["f"] for c in cols if c.get("brk")]
    for i, r in enumerate(case["records"]):
        cur = [dv(r[f]) for f in brk]
        if prev is not None and prev != cur:
            lines.append(("brk",))
        lines.append(("rec", i))
        prev = cur
    return lines


def check_text(case, text):
    """Judge the no_color rendering `text` of the table built from `case`.
    -> (findings, info) ; findings = [(bucket, detail)], info = set of class names"""
    f = []
    info = set()
    cols = visible_cols(case)
    lines = text.split("\n")
    if not lines or not re.fullmatch(r"\+(-*\+)+", lines[0]):
        return [("first_line_is_not_a_border", repr(lines[:1]))], info
    border = lines[0]
    W = len(border)
    lens = {len(ln) for ln in lines}
    if lens != {W}:
        f.append(("lines_have_different_widths", f"widths {sorted(lens)}: " + repr(lines[:6])))
        return f, info
    marks = [i for i, ch in enumerate(border) if ch == "+"]
    widths = [b - a - 1 for a, b in zip(marks, marks[1:])]
    if len(widths) != len(cols):
        f.append(("wrong_number_of_columns", f"{len(widths)} columns shown, {len(cols)} expected"))
        return f, info
    for c, w in zip(cols, widths):
        lo, hi = col_bounds(c)
        if not lo <= w <= hi:
            f.append(("column_width_out_of_bounds", f"column {case['fields'][c['f']]}: width {w} not in [{lo},{hi}]"))
        if w <= 2:
            info.add("width_le_2")
        if w == 0:
            info.add("width_0")
    pos = 1
    hdr = case.get("header")
    if hdr:
        ln = lines[pos]
        if ln[0] != "|" or ln[-1] != "|" or not cell_ok(ln[1:-1], hdr, W - 2):
            f.append(("header_line_wrong", repr(ln)))
        if len(hdr) > W - 2:
            info.add("header_longer_than_table")
        pos += 1
    # titles
    tls = [title_lines(case, case["fields"][c["f"]]) for c in cols]
    ntl = max(len(t) for t in tls)
    if ntl > 1:
        info.add("multi_line_title")

    def split_cells(ln):
        bad = [m for m in marks if ln[m] != "|"]
        if bad:
            return None
        return [ln[a + 1:b] for a, b in zip(marks, marks[1:])]
    for i in range(ntl):
        if pos >= len(lines):
            f.append(("missing_lines", "title"))
            return f, info
        cells = split_cells(lines[pos])
        if cells is None:
            f.append(("separator_not_under_border_mark", f"title line {lines[pos]!r} border {border!r}"))
        else:
            for t, cell, w in zip(tls, cells, widths):
                exp = t[i] if i < len(t) else ""
                if not cell_ok(cell, exp, w):
                    f.append(("title_cell_wrong", f"cell {cell!r} expected {exp!r} width {w}"))
        pos += 1
    if pos >= len(lines) or lines[pos] != border:
        f.append(("second_border_missing", repr(lines[pos:pos + 1])))
        return f, info
    pos += 1
    # body
    foot = case.get("footer")
    if foot is None:
        foot = "Total %d records" % len(case["records"])
    nfoot = 1 if foot else 0
    body = lines[pos:len(lines) - 1 - nfoot]
    if len(lines) - 1 - nfoot < pos or lines[len(lines) - 1 - nfoot] != border:
        f.append(("final_border_missing", repr(lines[-2:])))
        return f, info
    if foot:
        if not cell_ok(lines[-1], foot, W):
            f.append(("footer_line_wrong", repr(lines[-1])))
        if len(foot) > W:
            info.add("footer_longer_than_table")
    model = body_model(case, cols)
    if any(m[0] == "brk" for m in model):
        info.add("break_lines")
    lim = case.get("limits")
    shapes = []   # acceptable shapes: list of model line lists where ('skip', n) marks the skipped line
    L = len(model)
    if lim is None or lim[0] is None or lim[1] is None:
        shapes.append(model)
    else:
        n, m = lim
        if L <= n + m + 1:
            shapes.append(model)
        if L >= n + m + 1:
            first = model[:n] if n else []
            last = model[-m:] if m else []
            shown = sum(1 for x in first + last if x[0] == "rec")
            shapes.append(first + [("skip", len(case["records"]) - shown)] + last)
    ok_shape = None
    problems = []
    for shape in shapes:
        if len(shape) != len(body):
            problems.append(("body_line_count_wrong", f"{len(body)} body lines, expected {len(shape)}"))
            continue
        probs = []
        for item, ln in zip(shape, body):
            if item[0] == "brk":
                if ln != "|" + " " * (W - 2) + "|":
                    probs.append(("break_line_wrong_or_misplaced", repr(ln)))
            elif item[0] == "skip":
                exp = "... %d records skipped" % item[1]
                if ln[0] != "|" or ln[-1] != "|" or not cell_ok(ln[1:-1], exp, W - 2):
                    probs.append(("skipped_line_wrong", f"{ln!r}, expected {exp!r}"))
            else:
                rec = case["records"][item[1]]
                cells = split_cells(ln)
                if cells is None:
                    probs.append(("separator_not_under_border_mark", f"line {ln!r} border {border!r}"))
                    continue
                for c, cell, w in zip(cols, cells, widths):
                    exps = expected_cell_texts(case, c, rec)
                    if not any(cell_ok(cell, e, w) for e in exps):
                        probs.append(("cell_wrong", f"record {item[1]} field {case['fields'][c['f']]}: cell {cell!r} "
                                      f"width {w}, value text {exps[0]!r}"))
                    elif len(exps[0]) > w and len(exps) == 1:
                        info.add("cell_truncated")
        if not probs:
            ok_shape = shape
            break
        problems.extend(probs)
    if ok_shape is None:
        f.extend(problems[:3])
    else:
        if any(x[0] == "skip" for x in ok_shape):
            info.add("limits_applied")
    return f, info


# ---------------------------------------------------------------------------
# strategies
# ---------------------------------------------------------------------------

def st_value():
    return st.one_of(
        st.none(), st.booleans(), st.integers(-10**6, 10**6), st.integers(),
        st.floats(allow_nan=False, allow_infinity=False, width=32),
        st.text(VAL_ALPHABET, max_size=12), st.text(VAL_ALPHABET, max_size=12), st.text("ab", max_size=3),
        st.text(VAL_ALPHABET, min_size=10, max_size=40),
        # str subclasses whose str() is not their content
        st.integers(0, 2).map(lambda i: {"$str": "enum", "i": i}), st.text("ab|", max_size=6).map(lambda s_: {"$str": "tag", "s": s_}))


def st_title():
    item = st.one_of(st.text("Tt |+-x", max_size=10), st.integers(-999, 999), st.none(), st.booleans())
    return st.one_of(
        st.text("Tt |+-x", max_size=10),
        st.lists(st.text("Tt|x", max_size=6), min_size=1, max_size=3).map("\n".join),
        st.lists(item, min_size=1, max_size=3))


@st.composite
def st_enum(draw):
    keys = draw(st.lists(st.integers(-5, 120) | st.text("kq", min_size=1, max_size=3), min_size=1, max_size=5,
                         unique_by=lambda v: (type(v).__name__, v)))
    if draw(st.integers(0, 5)) == 0:
        keys.append(None)
    vals = [[k, draw(st.text("NnOoPp ", min_size=0, max_size=8)), draw(st.sampled_from(SYNTAXES))] for k in keys]
    missing = draw(st.none() | st.tuples(st.text("?m", min_size=1, max_size=5), st.sampled_from(SYNTAXES[1:])).map(list))
    return {"values": vals, "missing": missing, "tuples": draw(st.booleans())}


@st.composite
def st_cols(draw, field_idxs, fields, enums, allow_hidden):
    ncol = draw(st.integers(1, 6))
    cols = []
    # fmt strings copied from a printed table carry "(n)" after the width range - here stale ones (any n): on some columns
    # or on all of them
    annot = draw(st.sampled_from([None, None, None, None, "some", "all"]))
    for _ in range(ncol):
        fi = draw(st.sampled_from(field_idxs))
        wkind = draw(st.sampled_from(["none", "none", "fixed", "range", "range", "zero", "tiny"] if annot != "all" else
                                     ["fixed", "range", "range", "zero", "tiny"]))
        mn = mx = None
        if wkind == "fixed":
            mn = mx = draw(st.integers(0, 15))
        elif wkind == "range":
            mn = draw(st.integers(0, 10))
            mx = mn + draw(st.integers(0, 12))
        elif wkind == "zero":
            mn = mx = 0
        elif wkind == "tiny":
            mn = draw(st.integers(0, 2))
            mx = draw(st.integers(mn, 3))
        mod = None
        if fields[fi] in enums:
            mod = draw(st.sampled_from([None, "val", "name", "full"]))
        cols.append({"f": fi, "min": mn, "max": mx, "brk": draw(st.integers(0, 4)) == 0, "mod": mod,
                     "hidden": allow_hidden and draw(st.integers(0, 9)) == 0})
        if mn is not None and (annot == "all" or (annot == "some" and draw(st.booleans()))):
            cols[-1]["annot"] = draw(st.integers(0, 30))
    if all(c["hidden"] for c in cols):
        cols[0]["hidden"] = False
    return cols


@st.composite
def st_reformat_case(draw, allow_dict=True):
    """a table, printed, then re-formatted (fmt setter and / or remove_columns), then printed again"""
    a = draw(st_table_case(max_records=12, allow_dict=allow_dict))
    nf = len(a["fields"])
    steps = []
    cur_cols = [dict(c) for c in visible_cols(a)]
    cur_limits = a["limits"]
    for _ in range(draw(st.integers(1, 3))):
        kind = draw(st.sampled_from(["fmt", "fmt", "remove", "print", "rewidth", "limits"]))
        if kind == "limits":
            cur_limits = [draw(st.integers(0, 4)), draw(st.integers(0, 4))]
            steps.append(["limits", list(cur_limits)])
            continue
        if kind == "rewidth":
            # the same columns in the same order, fixed widths; printed; then the widths exchanged among the columns
            # (the total width of the table stays the same)
            if a["kind"] == "tuple_nofields" or len(cur_cols) < 2:
                continue
            ws = [draw(st.integers(2, 12)) for _ in cur_cols]
            if len(set(ws)) == 1:
                ws[0] += 3
            rot = draw(st.integers(1, len(ws) - 1))
            for widths, then_print in ((ws, True), (ws[rot:] + ws[:rot], False)):
                cur_cols = [dict(c, min=w, max=None) for c, w in zip(cur_cols, widths)]
                steps.append(["fmt", [dict(c) for c in cur_cols], None])
                if then_print:
                    steps.append(["print", draw(st.booleans())])
        elif kind == "fmt":
            if a["kind"] == "tuple_nofields":
                new_cols = None
            else:
                idxs = sorted({c["f"] for c in a["cols"]}) if a["kind"] == "dict" else list(range(nf))
                new_cols = draw(st.none() | st_cols(idxs, a["fields"], a["enums"], False))
            new_limits = draw(st.none() | st.tuples(st.integers(0, 6), st.integers(0, 6)).map(list))
            if new_cols is None and new_limits is None:
                new_limits = [draw(st.integers(0, 3)), draw(st.integers(0, 3))]
            steps.append(["fmt", new_cols, new_limits])
            if new_cols is not None:
                cur_cols = [dict(c) for c in new_cols]
            if new_limits is not None:
                cur_limits = new_limits
        elif kind == "remove":
            names = sorted({a["fields"][c["f"]] for c in cur_cols})
            if len(names) > 1:
                rm = draw(st.lists(st.sampled_from(names), min_size=1, max_size=len(names) - 1, unique=True))
                steps.append(["remove", rm])
                cur_cols = [c for c in cur_cols if a["fields"][c["f"]] not in rm]
        else:
            steps.append(["print", draw(st.booleans())])
    return {"a": a, "steps": steps, "first_colored": draw(st.booleans()),
            "final": {"cols": cur_cols, "limits": cur_limits}}


@st.composite
def st_table_case(draw, max_records=40, allow_dict=True, allow_enum=True, allow_hidden=True):
    nf = draw(st.integers(1, 5))
    fields = ["f%d" % i for i in range(nf)]
    kinds = ["tuple", "tuple", "namedtuple"] + (["dict"] if allow_dict else []) + ["tuple_nofields"]
    kind = draw(st.sampled_from(kinds))
    if kind == "tuple_nofields":
        fields = ["col_%d" % (i + 1) for i in range(nf)]
    elif draw(st.integers(0, 5)) == 0:
        # field names that coincide with attribute names used inside the package
        odd = draw(st.permutations(["ch_text", "value", "name", "width", "text", "fmt", "records", "title"]))
        k = draw(st.integers(0, nf - 1))
        fields[k] = odd[0]
        if nf > 1 and draw(st.booleans()):
            fields[(k + 1) % nf] = odd[1]
    elif kind != "namedtuple" and draw(st.integers(0, 5)) == 0:
        # field names as sql result columns have them (ak.mcaller_sql hands cursor.description names to PPTable)
        odd = draw(st.permutations(["count(*)", "max(id)", "sum(a)", "n(1)", "avg(x)"]))
        k = draw(st.integers(0, nf - 1))
        fields[k] = odd[0]
        if nf > 1 and draw(st.booleans()):
            fields[(k + 1) % nf] = odd[1]
    enums = {}
    if allow_enum and kind != "tuple_nofields":
        for fn in fields:
            if draw(st.integers(0, 3)) == 0:
                enums[fn] = draw(st_enum())
    nrec = draw(st.integers(0, max_records) | st.integers(0, 6))
    # low-cardinality columns make break-by interesting
    lowcard = [draw(st.booleans()) for _ in fields]
    pools = [draw(st.lists(st_value(), min_size=1, max_size=3)) for _ in fields]
    records = []
    for _ in range(nrec):
        rec = []
        for i, fn in enumerate(fields):
            if fn in enums:
                ks = [v[0] for v in enums[fn]["values"]]
                rec.append(draw(st.sampled_from(ks) | st.sampled_from(ks) | st.integers(-3, 2000) | st.none() |
                                st.text("kqz", min_size=1, max_size=4)))
            elif lowcard[i]:
                rec.append(draw(st.sampled_from(pools[i])))
            else:
                rec.append(draw(st_value()))
        records.append(rec)
    if kind in ("tuple_nofields", "namedtuple") and nrec == 0:
        kind = "tuple"
    # columns
    # explicit columns for plain tuples need 'fields' (documented scenarios), so none for tuple_nofields
    need_cols = kind == "dict" or (kind != "tuple_nofields" and draw(st.integers(0, 3)) > 0)
    cols = None
    if need_cols:
        cols = draw(st_cols(list(range(nf)), fields, enums, allow_hidden))
    titles = {}
    if kind != "tuple_nofields":
        for fn in fields:
            if draw(st.integers(0, 2)) == 0:
                titles[fn] = draw(st_title())
    case = {"kind": kind, "fields": fields, "records": records, "cols": cols, "titles": titles, "enums": enums,
            "header": draw(st.none() | st.text("Header |+", max_size=12) | st.text("H", min_size=30, max_size=90)),
            "footer": draw(st.none() | st.none() | st.just("") | st.text("Foot |", max_size=10) |
                           st.text("F", min_size=30, max_size=90)),
            "limits": draw(st.none() | st.tuples(st.integers(0, 6), st.integers(0, 6)).map(list)),
            "limits_via": draw(st.sampled_from(["fmt", "arg"])),
            "skip": []}
    if draw(st.integers(0, 7)) == 0:
        # limits=(n, None) / (None, m): "tuple of two optional integers" - limits apply only when both are given
        case["limits"] = draw(st.sampled_from([[3, None], [None, 2], [None, 0], [0, None], [1, None], [None, None]]))
        case["limits_via"] = "arg"
    if draw(st.integers(0, 5)) == 0:
        vis = visible_cols(case)
        names = sorted({fields[c["f"]] for c in vis})
        if len(names) > 1:
            case["skip"] = [draw(st.sampled_from(names))]
    if kind != "tuple_nofields" and draw(st.integers(0, 5)) == 0:
        plain = [fn for fn in fields if fn not in enums]
        if plain:
            case["centered"] = draw(st.lists(st.sampled_from(plain), min_size=1, max_size=2, unique=True))
    if nrec >= 2 and draw(st.integers(0, 4)) == 0:
        # the same row object at several positions of the records list (rows taken from a small pool of objects)
        npool = draw(st.integers(1, 3))
        same = {}
        for i in range(npool, nrec):
            if draw(st.integers(0, 3)) > 0:
                j = draw(st.integers(0, npool - 1))
                same[str(i)] = j
                records[i] = list(records[j])
        case["same_as"] = same
    return case
