"""Common runner for the property checks (see DESIGN.md section 0).

A check module (checks/cNN_*.py) exposes

    ID    = "CNN"
    RULE  = "<how cases are generated / what makes one non-trivial and distinct>"
    ASSUMPTIONS = [...]
    def parts(tier) -> list[Part]

A Part is one generated domain together with its oracle:

    Part(name, evaluate, strategy=<callable returning a hypothesis strategy>, examples=N)
    Part(name, evaluate, enumerate=<callable returning an iterable of cases>, exhaustive=True)

`evaluate(case)` runs the code under test on one *plain-data* case (JSON-able: dict /
list / str / int / float / bool / None; bytes are not used) and returns an `Outcome`.
It never raises for a property violation: it reports `findings` - a list of
(bucket, detail) where bucket names a root cause as a predicate over the case.
An exception escaping `evaluate` is a harness error (exit 2).

The runner shards every part over a process pool, merges counters, matches findings
against known_findings.json, shrinks every unknown bucket with a bucket-restricted
Hypothesis run (or a greedy list/dict reducer for enumerated parts), writes the
replay file and the evidence file and sets the exit code.
"""
import argparse
import hashlib
import importlib
import json
import multiprocessing
import os
import sys
import time
import traceback

VERIF = os.path.dirname(os.path.dirname(os.path.abspath(__file__)))
REPO = os.environ.get("AK_PY_REPO", "/repo")
NSHARDS = int(os.environ.get("VERIF_SHARDS", "16"))
NPROC = int(os.environ.get("VERIF_NPROC", "16"))
SCALE = float(os.environ.get("VERIF_EXAMPLES_SCALE", "1"))   # experiments only: scales the example count of every part


def use_repo():
    """Put the tree under test first on sys.path and make sure it is what we import."""
    if sys.path[0] != REPO:
        sys.path.insert(0, REPO)
    for name in list(sys.modules):
        if name == "ak" or name.startswith("ak."):
            f = getattr(sys.modules[name], "__file__", "") or ""
            if not os.path.abspath(f).startswith(os.path.abspath(REPO) + os.sep):
                del sys.modules[name]
    import ak  # noqa
    f = os.path.abspath(ak.__file__)
    if not f.startswith(os.path.abspath(REPO) + os.sep):
        raise HarnessError(f"ak imported from {f}, expected under {REPO}")


class HarnessError(Exception):
    pass


class Outcome:
    """Result of evaluating one case."""
    __slots__ = ("nontrivial", "classes", "findings", "key", "sample", "evals")

    def __init__(self, nontrivial=False, classes=(), findings=(), key=None,
                 sample=None, evals=1):
        self.nontrivial = nontrivial
        self.classes = list(classes)
        self.findings = list(findings)   # [(bucket, detail)]
        self.key = key                   # hashable identifying the case (default: the case)
        self.sample = sample             # jsonable view of the case (default: the case)
        self.evals = evals               # executions of code under test this case stands for


class Part:
    def __init__(self, name, evaluate, strategy=None, examples=0, enumerate=None,
                 exhaustive=False, note="", reducible=False):
        self.name = name
        self.evaluate = evaluate
        self.strategy = strategy
        self.examples = examples
        self.enumerate = enumerate
        self.exhaustive = exhaustive
        self.note = note
        self.reducible = reducible   # the greedy structural reducer keeps cases inside the domain


def jdump(x):
    return json.dumps(x, sort_keys=True, default=repr, ensure_ascii=True)


def h64(x):
    if not isinstance(x, (str, bytes)):
        x = jdump(x)
    if isinstance(x, str):
        x = x.encode("utf-8", "surrogatepass")
    return int.from_bytes(hashlib.blake2b(x, digest_size=8).digest(), "big")


def derive_seed(*parts):
    return h64(jdump(list(parts))) & 0x7FFFFFFFFFFF


# ---------------------------------------------------------------------------
# known findings
# ---------------------------------------------------------------------------

def load_known(prop_id):
    path = os.path.join(VERIF, "known_findings.json")
    if not os.path.exists(path):
        return []
    with open(path) as f:
        data = json.load(f)
    return [e for e in data.get("findings", [])
            if e.get("property") == prop_id and e.get("status") == "known"]


def known_match(known, bucket, case):
    """A known entry names a bucket and (optionally) a `case_contains` fragment:
    a dict of key -> value that must be equal in the failing case."""
    for e in known:
        if e.get("bucket") != bucket:
            continue
        frag = e.get("case_contains")
        if frag is None:
            return e
        if isinstance(case, dict) and all(case.get(k) == v for k, v in frag.items()):
            return e
    return None


# ---------------------------------------------------------------------------
# worker
# ---------------------------------------------------------------------------

class _Acc:
    def __init__(self):
        self.evaluations = 0
        self.cases = 0
        self.nt = set()
        self.classes = {}
        self.samples = {}      # class -> sample
        self.findings = {}     # bucket -> (size, case, detail)
        self.any_samples = []
        self._sample_keys = set()

    def add(self, case, out):
        self.cases += 1
        self.evaluations += out.evals
        key = out.key if out.key is not None else case
        if out.nontrivial:
            self.nt.add(h64(key))
        for c in out.classes:
            self.classes[c] = self.classes.get(c, 0) + 1
            if c not in self.samples and len(self.samples) < 40:
                hk = h64(key)
                if hk not in self._sample_keys:       # one case illustrates one class: samples stay diverse
                    self._sample_keys.add(hk)
                    self.samples[c] = out.sample if out.sample is not None else case
        if out.nontrivial and len(self.any_samples) < 3:
            self.any_samples.append(out.sample if out.sample is not None else case)
        for bucket, detail in out.findings:
            size = len(jdump(case))
            cur = self.findings.get(bucket)
            if cur is None or size < cur[0]:
                self.findings[bucket] = (size, case, str(detail)[:2000])

    def export(self):
        return {
            "evaluations": self.evaluations, "cases": self.cases,
            "nt": self.nt, "classes": self.classes, "samples": self.samples,
            "any_samples": self.any_samples,
            "findings": {b: (s, c, d) for b, (s, c, d) in self.findings.items()},
        }


def _hyp_settings(n, shrink=False):
    from hypothesis import settings, HealthCheck, Phase
    phases = [Phase.generate, Phase.shrink] if shrink else [Phase.generate]
    return settings(max_examples=n, database=None, deadline=None, derandomize=False,
                    report_multiple_bugs=False, phases=phases,
                    suppress_health_check=list(HealthCheck), print_blob=False)


def _get_part(mod_name, tier, part_name):
    mod = importlib.import_module(mod_name)
    for p in mod.parts(tier):
        if p.name == part_name:
            return mod, p
    raise HarnessError(f"no part {part_name} in {mod_name}")


# ---------------------------------------------------------------------------
# environment dimension shared by all checks: every fourth case (chosen by the hash of the case, so a replay gets the
# same) is evaluated with debug logging switched on for the package's loggers, the records being formatted into a sink.
# What a property promises does not depend on the logging level of the process.

_DEBUG_LOGS = [False]


def debug_logs_active():
    return _DEBUG_LOGS[0]


class _Sink(__import__("logging").Handler):
    def emit(self, record):
        try:
            self.format(record)
        except Exception:   # noqa  (a log statement that cannot be formatted is reported by logging itself, not here)
            pass


class _PackageLogging:
    def __init__(self, debug):
        self.debug = debug

    def __enter__(self):
        import logging
        _DEBUG_LOGS[0] = self.debug
        if not self.debug:
            return self
        self.lg = logging.getLogger("ak")
        self.saved = (self.lg.level, list(self.lg.handlers), self.lg.propagate)
        self.children = {n: l.level for n, l in logging.Logger.manager.loggerDict.items()
                         if n.startswith("ak.") and isinstance(l, logging.Logger)}
        for n in self.children:
            logging.getLogger(n).setLevel(logging.NOTSET)
        self.lg.handlers[:] = [_Sink()]
        self.lg.setLevel(logging.DEBUG)
        self.lg.propagate = False
        return self

    def __exit__(self, *a):
        import logging
        _DEBUG_LOGS[0] = False
        if self.debug:
            self.lg.setLevel(self.saved[0])
            self.lg.handlers[:] = self.saved[1]
            self.lg.propagate = self.saved[2]
            for n, lv in self.children.items():
                logging.getLogger(n).setLevel(lv)
        return False


def wants_debug_logs(case):
    return h64(case) % 4 == 0


def safe_evaluate(part, case):
    with _PackageLogging(wants_debug_logs(case)) as env:
        out = _safe_evaluate(part, case)
    if env.debug and isinstance(out, Outcome):
        out.classes = sorted(set(out.classes) | {"package_debug_logging_on"})
    return out


def _safe_evaluate(part, case):
    """evaluate(case); an exception that escapes from the package under test through code of the check that did not
    expect one (innermost frame inside the tree under test) is a finding, not a harness error: the package raised
    on an input of the property's domain. Exceptions raised by the check's own code stay harness errors."""
    try:
        return part.evaluate(case)
    except Exception as e:   # noqa
        tb = traceback.extract_tb(e.__traceback__)
        last = tb[-1] if tb else None
        root = os.path.realpath(REPO) + os.sep
        if last is not None and os.path.realpath(last.filename).startswith(root):
            return Outcome(True, ["exception_escaped_from_the_package"],
                           [("package_raises_%s_in_%s_where_the_check_expected_none" % (type(e).__name__, last.name),
                             f"{type(e).__name__}: {e} (at {os.path.relpath(last.filename, root)}:{last.lineno})")])
        raise


def _run_shard(args):
    mod_name, tier, part_name, shard, nshards, seed = args
    try:
        use_repo()
        mod, part = _get_part(mod_name, tier, part_name)
        acc = _Acc()
        if part.enumerate is not None:
            thin = os.environ.get("VERIF_OPT_CHILD") == "1"       # the 'python -O' part of a run takes every 5th enumerated case
            for i, case in enumerate(part.enumerate()):
                if i % nshards != shard:
                    continue
                if thin and (i // nshards) % 5 != 0:
                    continue
                acc.add(case, safe_evaluate(part, case))
        else:
            import hypothesis
            from hypothesis import given
            n = max(1, int(part.examples * SCALE) // nshards)
            sseed = derive_seed(seed, mod.ID, part.name, shard)

            @hypothesis.seed(sseed)
            @_hyp_settings(n)
            @given(part.strategy())
            def body(case):
                acc.add(case, safe_evaluate(part, case))
            body()
        return ("ok", part_name, shard, acc.export())
    except BaseException:   # noqa
        return ("err", part_name, shard, traceback.format_exc())


class _Found(Exception):
    pass


def _shrink_hyp(args):
    """Re-run the shard that found `bucket` with an oracle restricted to that bucket and
    let Hypothesis shrink."""
    mod_name, tier, part_name, shard, nshards, seed, bucket = args
    try:
        use_repo()
        mod, part = _get_part(mod_name, tier, part_name)
        import hypothesis
        from hypothesis import given
        n = max(1, int(part.examples * SCALE) // nshards)
        sseed = derive_seed(seed, mod.ID, part.name, shard)
        best = [None]

        @hypothesis.seed(sseed)
        @_hyp_settings(n, shrink=True)
        @given(part.strategy())
        def body(case):
            out = safe_evaluate(part, case)
            for b, d in out.findings:
                if b == bucket:
                    size = len(jdump(case))
                    if best[0] is None or size <= best[0][0]:
                        best[0] = (size, case, str(d)[:2000])
                    raise _Found()
        try:
            body()
        except _Found:
            pass
        except Exception:   # hypothesis wraps / flaky etc.; keep what we have
            pass
        return best[0]
    except BaseException:   # noqa
        return None


def _reduce_greedy(part, case, bucket):
    """Tiny structural reducer for enumerated / replayed cases: try deleting list items and
    shortening strings anywhere in the case while the bucket still fires."""
    def fires(c):
        try:
            return any(b == bucket for b, _ in safe_evaluate(part, c).findings)
        except Exception:
            return False

    def variants(x):
        if isinstance(x, list):
            for i in range(len(x)):
                yield x[:i] + x[i + 1:]
            for i, it in enumerate(x):
                for v in variants(it):
                    yield x[:i] + [v] + x[i + 1:]
        elif isinstance(x, dict):
            for k in x:
                for v in variants(x[k]):
                    y = dict(x)
                    y[k] = v
                    yield y
        elif isinstance(x, str) and len(x) > 0:
            for i in range(len(x)):
                yield x[:i] + x[i + 1:]
        elif isinstance(x, int) and not isinstance(x, bool) and x > 0:
            yield x // 2
            yield x - 1
    budget = 400
    changed = True
    while changed and budget > 0:
        changed = False
        for v in variants(case):
            budget -= 1
            if budget <= 0:
                break
            if fires(v):
                case = v
                changed = True
                break
    return case


# ---------------------------------------------------------------------------
# main
# ---------------------------------------------------------------------------

def _save_replay(prop_id, part_name, bucket, case, detail, committed=False):
    d = os.path.join(VERIF, "replays" if committed else "replays_new", prop_id)
    os.makedirs(d, exist_ok=True)
    name = "%s-%016x.json" % ("".join(ch if ch.isalnum() else "_" for ch in bucket)[:60],
                              h64([part_name, case]))
    path = os.path.join(d, name)
    rec = {"property": prop_id, "part": part_name, "bucket": bucket, "detail": detail, "case": case}
    if sys.flags.optimize:
        rec["python_optimize"] = int(sys.flags.optimize)       # found in the 'python -O' part of the run: replayed the same way
        path = path[:-5] + "-pyO.json"
    with open(path, "w") as f:
        json.dump(rec, f, indent=1, sort_keys=True, default=repr)
    return path


def _committed_replays(prop_id):
    d = os.path.join(VERIF, "replays", prop_id)
    if not os.path.isdir(d):
        return []
    return sorted(os.path.join(d, n) for n in os.listdir(d) if n.endswith(".json"))


def run_check(mod_name, tier, seed, replay=None, only_part=None):
    t0 = time.time()
    use_repo()
    mod = importlib.import_module(mod_name)
    prop_id = mod.ID
    known = load_known(prop_id)
    parts = mod.parts(tier)
    if only_part:
        parts = [p for p in parts if p.name == only_part]
    pmap = {p.name: p for p in parts}

    findings = {}       # (part, bucket) -> (size, case, detail, shard)
    replayed = 0
    replay_files = [replay] if replay else _committed_replays(prop_id)
    all_parts = {p.name: p for p in mod.parts("thorough")}
    all_parts.update({p.name: p for p in mod.parts("quick")})
    all_parts.update(pmap)
    for path in replay_files:
        with open(path) as f:
            r = json.load(f)
        if bool(r.get("python_optimize")) != bool(sys.flags.optimize):
            if replay:
                # a case of the other interpreter mode: replay it there
                env = dict(os.environ, PYTHONOPTIMIZE=str(r.get("python_optimize") or ""), VERIF_OPT_CHILD="1")
                if not r.get("python_optimize"):
                    env.pop("PYTHONOPTIMIZE")
                import subprocess
                return subprocess.call([sys.executable, os.path.join(VERIF, "run_check.py"), prop_id, "--tier", tier,
                                        "--replay", path], env=env)
            continue        # (the run in the other mode replays it)
        part = all_parts.get(r["part"])
        if part is None:
            raise HarnessError(f"replay {path}: unknown part {r['part']}")
        out = safe_evaluate(part, r["case"])
        replayed += 1
        for b, d in out.findings:
            findings.setdefault((part.name, b), (0, r["case"], str(d)[:2000], None, path))

    total = {"evaluations": 0, "cases": 0, "nt": set(), "classes": {}, "samples": {},
             "any_samples": [], "parts": {}}
    if not replay:
        tasks = []
        for p in parts:
            n = NSHARDS if (p.enumerate is not None or p.examples >= NSHARDS) else 1
            for s in range(n):
                tasks.append((mod_name, tier, p.name, s, n, seed))
        ctx = multiprocessing.get_context("fork")
        timeout = float(os.environ.get("VERIF_WATCHDOG_S", "1500" if tier == "quick" else "43200"))
        with ctx.Pool(min(NPROC, len(tasks)) or 1, maxtasksperchild=1) as pool:
            async_res = pool.map_async(_run_shard, tasks, chunksize=1)
            try:
                results = async_res.get(timeout=timeout)
            except multiprocessing.TimeoutError:
                pool.terminate()
                raise HarnessError(f"watchdog: check did not finish within {timeout}s (inconclusive)")
        for status, pname, shard, data in results:
            if status != "ok":
                raise HarnessError(f"part {pname} shard {shard} failed:\n{data}")
            total["evaluations"] += data["evaluations"]
            total["cases"] += data["cases"]
            total["nt"] |= {(pname, k) for k in data["nt"]}
            ps = total["parts"].setdefault(pname, {"evaluations": 0, "cases": 0, "nontrivial": 0})
            ps["evaluations"] += data["evaluations"]
            ps["cases"] += data["cases"]
            for c, n in data["classes"].items():
                total["classes"][c] = total["classes"].get(c, 0) + n
            for c, smp in data["samples"].items():
                total["samples"].setdefault(c, smp)
            if len(total["any_samples"]) < 4:
                total["any_samples"].extend(data["any_samples"][:1])
            for b, (size, case, detail) in data["findings"].items():
                cur = findings.get((pname, b))
                if cur is None or (cur[4] is None and size < cur[0]):
                    findings[(pname, b)] = (size, case, detail, shard, None)
        for pname in total["parts"]:
            total["parts"][pname]["nontrivial"] = sum(1 for (p, _) in total["nt"] if p == pname)
            pp = pmap[pname]
            total["parts"][pname]["exhaustive"] = bool(pp.exhaustive)
            if pp.note:
                total["parts"][pname]["note"] = pp.note

    # classify findings
    violations = []
    known_hits = {}
    for (pname, bucket), (size, case, detail, shard, path) in sorted(findings.items(), key=lambda kv: kv[0]):
        e = known_match(known, bucket, case)
        if e is not None:
            known_hits.setdefault(e.get("what", bucket), 0)
            known_hits[e.get("what", bucket)] += 1
            continue
        violations.append((pname, bucket, case, detail, shard, path))

    # shrink + save
    out_lines = []
    for pname, bucket, case, detail, shard, path in violations:
        part = all_parts[pname]
        if path is None:
            if part.enumerate is None and shard is not None and os.environ.get("VERIF_NO_SHRINK") != "1":
                n = NSHARDS if part.examples >= NSHARDS else 1
                ctx = multiprocessing.get_context("fork")
                with ctx.Pool(1) as pool:
                    r = pool.apply_async(_shrink_hyp, ((mod_name, tier, pname, shard, n, seed, bucket),))
                    try:
                        best = r.get(timeout=420)
                    except multiprocessing.TimeoutError:
                        pool.terminate()
                        best = None
                if best is not None:
                    _, case, detail = best
            try:
                if part.reducible:
                    case = _reduce_greedy(part, case, bucket)
                for b, d in safe_evaluate(part, case).findings:
                    if b == bucket:
                        detail = str(d)[:2000]
            except Exception:
                pass
            path = _save_replay(prop_id, pname, bucket, case, detail)
        out_lines.append((bucket, detail, path))

    for what in known_hits:
        print(f"KNOWN-FINDING: property={prop_id} {what}")
    for bucket, detail, path in out_lines:
        print(f"# {prop_id} bucket={bucket}: {detail}")
        print(f"VIOLATION property={prop_id} replay={path}")

    if not replay:
        samples = []
        for c, smp in sorted(total["samples"].items()):
            samples.append({"class": c, "case": smp})
            if len(samples) >= 10:
                break
        for smp in total["any_samples"]:
            if len(samples) < 12:
                samples.append({"class": "nontrivial", "case": smp})
        ev = {
            "property_id": prop_id,
            "tier": tier,
            "seed": int(seed),
            "level": "exploration",
            "coverage": {
                "evaluations": total["evaluations"],
                "generated_cases": total["cases"],
                "distinct_nontrivial": len(total["nt"]),
                "rule": mod.RULE,
                "samples": json.loads(jdump(samples)),
                "classes": dict(sorted(total["classes"].items())),
                "parts": total["parts"],
                "exhaustive": all(p.exhaustive for p in parts) if parts else False,
                "replayed_regression_cases": replayed,
                "excluded_known": known_hits,
                "violation_buckets": [b for b, _, _ in out_lines],
            },
            "assumptions": list(getattr(mod, "ASSUMPTIONS", [])),
            "wall_s": round(time.time() - t0, 2),
            "violations": len(out_lines),
        }
        if not only_part:
            evdir = os.environ.get("VERIF_EVIDENCE_DIR") or os.path.join(VERIF, "evidence")
            os.makedirs(evdir, exist_ok=True)
            with open(os.path.join(evdir, prop_id + ".json"), "w") as f:
                json.dump(ev, f, indent=1, sort_keys=True)
        print(f"# {prop_id} tier={tier} seed={seed} cases={total['cases']} evaluations={total['evaluations']} "
              f"distinct_nontrivial={len(total['nt'])} violations={len(out_lines)} wall={ev['wall_s']}s")
        if os.environ.get("VERIF_VERBOSE"):
            print(json.dumps(ev["coverage"]["classes"], indent=1))
        if not out_lines and not sys.flags.optimize and os.environ.get("VERIF_NO_OPT_RUN") != "1":
            rc_o = _optimized_interpreter_run(prop_id, tier, seed, only_part, ev)
            if rc_o:
                return rc_o
    return 1 if out_lines else 0


OPT_FRACTION = 0.2


def _optimized_interpreter_run(prop_id, tier, seed, only_part, ev):
    """the same check once more, at OPT_FRACTION of its size, in an interpreter that strips assert statements
    and docstrings (PYTHONOPTIMIZE=2 / python -OO) - an interpreter mode, not an input: what a property promises does not depend on it.
    Its violations are this check's violations; its counts are added to the evidence under coverage.optimized_interpreter_run"""
    import subprocess
    import tempfile
    tmp = tempfile.mkdtemp(prefix="verif_pyO_")
    try:
        env = dict(os.environ, PYTHONOPTIMIZE="2", VERIF_OPT_CHILD="1", VERIF_EVIDENCE_DIR=tmp, VERIF_SEED=str(seed),
                   VERIF_EXAMPLES_SCALE=str(SCALE * OPT_FRACTION))
        cmd = [sys.executable, os.path.join(VERIF, "run_check.py"), prop_id, "--tier", tier]
        if only_part:
            cmd += ["--part", only_part]
        r = subprocess.run(cmd, env=env, capture_output=True, text=True)
        if r.returncode not in (0, 1):
            raise HarnessError("python -O part of the run failed:\n" + r.stderr[-2000:])
        summary = None
        for ln in r.stdout.splitlines():
            if ln.startswith("VIOLATION "):
                print(ln)
            elif ln.startswith("# %s bucket=" % prop_id):
                print(ln.replace(" bucket=", " [python -O] bucket=", 1))
            elif ln.startswith("# %s tier=" % prop_id):
                summary = ln
        info = {"interpreter": "PYTHONOPTIMIZE=2", "fraction_of_cases": OPT_FRACTION, "violations": 1 if r.returncode else 0}
        try:
            with open(os.path.join(tmp, prop_id + ".json")) as f:
                ce = json.load(f)
            info.update(generated_cases=ce["coverage"]["generated_cases"], evaluations=ce["coverage"]["evaluations"],
                        distinct_nontrivial=ce["coverage"]["distinct_nontrivial"], violations=ce["violations"],
                        wall_s=ce["wall_s"])
        except Exception:   # noqa  (--part runs write no evidence)
            pass
        if summary:
            print(summary.replace(" tier=", " [python -O] tier=", 1))
        if not only_part:
            ev["coverage"]["optimized_interpreter_run"] = info
            ev["violations"] = ev.get("violations", 0) + info.get("violations", 0)
            evdir = os.environ.get("VERIF_EVIDENCE_DIR") or os.path.join(VERIF, "evidence")
            with open(os.path.join(evdir, prop_id + ".json"), "w") as f:
                json.dump(ev, f, indent=1, sort_keys=True)
        return r.returncode
    finally:
        import shutil
        shutil.rmtree(tmp, ignore_errors=True)


CHECKS = {}


def find_check(prop_id):
    d = os.path.join(VERIF, "checks")
    for n in sorted(os.listdir(d)):
        if n.lower().startswith(prop_id.lower() + "_") and n.endswith(".py"):
            return "checks." + n[:-3]
    raise HarnessError(f"no check module for {prop_id}")


def main(argv=None):
    ap = argparse.ArgumentParser()
    ap.add_argument("prop")
    ap.add_argument("--tier", default=os.environ.get("VERIF_TIER", "quick"), choices=["quick", "thorough"])
    ap.add_argument("--replay")
    ap.add_argument("--part")
    a = ap.parse_args(argv)
    try:
        seed = int(os.environ.get("VERIF_SEED", "1") or "1")
    except ValueError:
        seed = h64(os.environ["VERIF_SEED"]) & 0xFFFFFFFF
    try:
        if VERIF not in sys.path:
            sys.path.insert(0, VERIF)
        rc = run_check(find_check(a.prop), a.tier, seed, replay=a.replay, only_part=a.part)
    except HarnessError as e:
        print(f"HARNESS-ERROR {a.prop}: {e}", file=sys.stderr)
        return 2
    except Exception:
        print(f"HARNESS-ERROR {a.prop}:\n{traceback.format_exc()}", file=sys.stderr)
        return 2
    return rc
