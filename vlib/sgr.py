"""Independent interpreter of SGR ("ESC [ params m") sequences: a tiny terminal model.

Knows nothing about ak.color's own tables or regular expressions.
State = (fg, bg, effects): fg/bg are None (terminal default) or a 256-colour index
(basic colours 30-37/40-47 map to indexes 0-7, i.e. are identified with 38:5:0..7);
effects is a frozenset of names.
"""

DEFAULT = (None, None, frozenset())
ESC = "\x1b"
_EFFECTS = {1: "bold", 2: "faint", 4: "underline", 5: "blink", 9: "crossed"}
_EFFECTS_OFF = {22: ("bold", "faint"), 24: ("underline",), 25: ("blink",), 29: ("crossed",)}


class Malformed(Exception):
    pass


def _apply(state, params_text):
    fg, bg, eff = state
    eff = set(eff)
    # split into parameters; a parameter may carry ':' sub-parameters
    raw = params_text.split(";") if params_text != "" else ["0"]
    params = []
    for p in raw:
        sub = p.split(":")
        for s in sub:
            if s != "" and not s.isdigit():
                raise Malformed(f"non numeric parameter {p!r}")
        params.append([int(s) if s != "" else 0 for s in sub])
    i = 0
    while i < len(params):
        p = params[i]
        code = p[0]
        if code in (38, 48):
            if len(p) > 1:      # colon form 38:5:n
                args = p[1:]
            else:               # semicolon form 38;5;n
                if i + 2 >= len(params):
                    raise Malformed("truncated 38/48 sequence")
                args = [params[i + 1][0], params[i + 2][0]]
                if len(params[i + 1]) != 1 or len(params[i + 2]) != 1:
                    raise Malformed("mixed 38/48 sequence")
                i += 2
            if len(args) != 2 or args[0] != 5 or not 0 <= args[1] <= 255:
                raise Malformed(f"unsupported extended colour {p!r}")
            if code == 38:
                fg = args[1]
            else:
                bg = args[1]
        elif len(p) != 1:
            raise Malformed(f"unexpected sub-parameters {p!r}")
        elif code == 0:
            fg, bg, eff = None, None, set()
        elif code in _EFFECTS:
            eff.add(_EFFECTS[code])
        elif code in _EFFECTS_OFF:
            for e in _EFFECTS_OFF[code]:
                eff.discard(e)
        elif 30 <= code <= 37:
            fg = code - 30
        elif 40 <= code <= 47:
            bg = code - 40
        elif code == 39:
            fg = None
        elif code == 49:
            bg = None
        else:
            raise Malformed(f"unknown SGR code {code}")
        i += 1
    return (fg, bg, frozenset(eff))


def interpret(s, state=DEFAULT):
    """-> (cells, final_state, n_sequences). cells = [(char, state, was_default)] for every
    visible char; was_default tells whether the terminal was in default state at some moment
    between the previous visible char (or the start) and this one.
    Raises Malformed for an ESC that does not start a well-formed SGR sequence."""
    cells = []
    i = 0
    n = len(s)
    nseq = 0
    was_default = state == DEFAULT
    while i < n:
        ch = s[i]
        if ch != ESC:
            cells.append((ch, state, was_default or state == DEFAULT))
            was_default = state == DEFAULT
            i += 1
            continue
        if i + 1 >= n or s[i + 1] != "[":
            raise Malformed(f"ESC not followed by '[' at {i}")
        j = i + 2
        while j < n and (s[j].isdigit() and s[j] in "0123456789" or s[j] in ";:"):
            j += 1
        if j >= n or s[j] != "m":
            raise Malformed(f"unterminated / non-SGR sequence at {i}: {s[i:j + 1]!r}")
        state = _apply(state, s[i + 2:j])
        was_default = was_default or state == DEFAULT
        nseq += 1
        i = j + 1
    return cells, state, nseq


def strip(s):
    cells, _, _ = interpret(s)
    return "".join(c[0] for c in cells)


def color_index(spec):
    """Expected 256-colour index for a documented ColorFmt colour spec (None -> None)."""
    names = ['BLACK', 'RED', 'GREEN', 'YELLOW', 'BLUE', 'MAGENTA', 'CYAN', 'WHITE']
    if spec is None:
        return None
    if isinstance(spec, str):
        if spec in names:
            return names.index(spec)
        assert spec[0] == "g"
        return 232 + int(spec[1:])
    if isinstance(spec, (tuple, list)):
        r, g, b = spec
        return 16 + 36 * r + 6 * g + b
    return int(spec)
