"""Deterministic hang guards: call-count budgets installed with sys.setprofile."""
import sys
from contextlib import contextmanager


class Diverged(BaseException):
    """Raised from the profile hook when the budget of Python-level calls into the module
    under test is exhausted. BaseException so that `except Exception` in the code under test
    cannot swallow it."""


@contextmanager
def call_budget(limit, filename_suffix):
    count = [0]

    def prof(frame, event, arg):
        if event == "call" and frame.f_code.co_filename.endswith(filename_suffix):
            count[0] += 1
            if count[0] > limit:
                sys.setprofile(None)
                raise Diverged(f"more than {limit} calls into {filename_suffix}")
    old = sys.getprofile()
    sys.setprofile(prof)
    try:
        yield count
    finally:
        sys.setprofile(old)
