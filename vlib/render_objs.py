"""Printable objects of the package, built from plain-data specs, and the ways to render them.

Used both by the C10 check (inside the long-lived, 'polluted' process) and by the baseline server
(vlib/baseline_server.py), which renders the same (object spec, config spec, options) in a process that has never
rendered anything.
"""
import collections
import contextlib
import io

from vlib import fakegit
from vlib import tables

# ---------------------------------------------------------------------------
# configuration specs
# ---------------------------------------------------------------------------


def build_config(C, spec):
    """spec: {"map": {id: descr}, "no_color": bool, "regs": [{id: descr}, ...]}"""
    conf = C.ColorsConfig(dict(spec.get("map") or {}), no_color=bool(spec.get("no_color")))
    for n, items in enumerate(spec.get("regs") or []):
        conf.add_new_items(dict(items), "reg%d" % n)
    return conf


# ---------------------------------------------------------------------------
# fixed history-report scenarios
# ---------------------------------------------------------------------------

GHIST_SCENARIOS = [
    {   # single repository: not built head, not merged commits, two branches
        "search": "BUG-7",
        "repos": [{"id": "main", "comps": {}, "spec": {
            "name": "main",
            "commits": [
                {"parents": [], "msg": "init", "ts": 10, "files": {"VERSION": "7.1"}},
                {"parents": [0], "msg": "BUG-7 first", "ts": 20, "files": {"VERSION": "7.1"}},
                {"parents": [1], "msg": "other", "ts": 30, "files": {"VERSION": "7.1"}},
                {"parents": [2], "msg": "BUG-7 second\n\nbody", "ts": 40, "files": {"VERSION": "7.1"}},
                {"parents": [1], "msg": "BUG-7 on master only", "ts": 50, "files": {"VERSION": "7.1"}},
            ],
            "branches": {"release/1.0": 3, "master": 4},
            "tags": [["build_12_release_1_0_success", 2]],
        }}],
    },
    {   # component + parent with bumps and included_at
        "search": "fix",
        "repos": [
            {"id": "comp", "comps": {}, "spec": {
                "name": "comp",
                "commits": [
                    {"parents": [], "msg": "fix one", "ts": 100, "files": {"VERSION": "1.0"}},
                    {"parents": [0], "msg": "nothing", "ts": 101, "files": {"VERSION": "1.0"}},
                    {"parents": [1], "msg": "fix two", "ts": 102, "files": {"VERSION": "1.0"}},
                    {"parents": [2], "msg": "fix three (not built)", "ts": 103, "files": {"VERSION": "1.0"}},
                ],
                "branches": {"release/1.0": 3},
                "tags": [["build_5_release_1_0_success", 1], ["build_9_release_1_0_success", 2]],
            }},
            {"id": "main", "comps": {"comp": "DEPENDS"}, "spec": {
                "name": "main",
                "commits": [
                    {"parents": [], "msg": "start", "ts": 5000, "files": {"VERSION": "7.1", "DEPENDS": "comp=1.0.5\n"}},
                    {"parents": [0], "msg": "fix in parent", "ts": 5010, "files": {"VERSION": "7.1", "DEPENDS": "comp=1.0.5\n"}},
                    {"parents": [1], "msg": "bump", "ts": 5020, "files": {"VERSION": "7.1", "DEPENDS": "comp=1.0.9\n"}},
                ],
                "branches": {"release/2.0": 2, "master": 1},
                "tags": [["build_31_release_2_0_success", 1], ["build_32_release_2_0_success", 2]],
            }},
        ],
    },
]


def build_ghist(scn_idx, gen=None):
    import ak.ghist as G
    import logging
    from vlib import core as _core
    if not _core.debug_logs_active():
        logging.getLogger("ak.ghist").setLevel(logging.ERROR)
    if gen is not None:
        # a generated single-repository history (same case format as the C06 check)
        from checks import c06_history_report as c6
        cls = fakegit.make_project_repo_class(G, {}, name="Repo_main")
        prj = cls("main", fakegit.FakeRepo(c6.build_spec(gen)), "origin")
        return G.ReposCollection({"main": prj}).make_report(gen["search"])
    scn = GHIST_SCENARIOS[scn_idx % len(GHIST_SCENARIOS)]
    repos = {}
    for r in scn["repos"]:
        cls = fakegit.make_project_repo_class(G, r["comps"], name="Repo_" + r["id"])
        repos[r["id"]] = cls(r["id"], fakegit.FakeRepo(r["spec"]), "origin")
    return G.ReposCollection(repos).make_report(scn["search"])


# ---------------------------------------------------------------------------
# console help targets
# ---------------------------------------------------------------------------

def hdoc_targets():
    import ak.hdoc as HD
    import ak.conn_http as H
    import ak.mcaller_http as MH
    cache = getattr(hdoc_targets, "_c", None)
    if cache is not None and cache[0] is HD:
        return cache[1]

    @HD.h_doc
    class Sample:
        """Sample documented class

        Longer description
        of the class.
        """
        _HDOC_ATTRS = [("alpha", "first attribute"), ("beta_missing", "an attribute that is None")]

        def __init__(self):
            self.alpha = 1
            self.beta_missing = None

        def method_one(self, a, b=3):
            """Do the first thing

            Details of the first thing.
            #main #extra
            """

        def method_two(self):
            """Do the second thing
            #other
            """

    class Caller(MH.MCallerHttp):
        """Sample http caller"""
        _HTTP_PREFIX_MAP = {"compA": "/a"}

        @MH.method_http("basic", "compA")
        def needs_basic(self, x):
            """Call that needs basic auth
            #calls
            """

        @MH.method_http(None)
        def plain(self):
            """Plain call
            #calls
            """
    import ak.color as C

    @HD.h_doc
    class Service:
        """Sample service with its own notes about bound methods

        Body of the class doc.
        """

        def fetch(self, item_id):
            """Fetch an item

            Detailed description of fetch.
            #items
            """

        def store(self, item):
            """Store an item
            #items
            """

        def drop(self, item):
            """Drop an item
            #items #danger
            """

        def listing(self):
            """List items
            #items
            """

        def _get_hdoc_method_notes(self, bound_method, _c):
            n = bound_method.__name__
            if n == "fetch":       # short note coloured, the line repeats its text
                return HD.BoundMethodNotes(False, C.CHText(_c.warn("<n/a>")), "<n/a>")
            if n == "drop":        # both coloured, different texts
                return HD.BoundMethodNotes(False, C.CHText(_c.warn("no")), C.CHText("details ", _c.warn("here")))
            if n == "listing":     # plain strings with equal texts
                return HD.BoundMethodNotes(True, "note", "note")
            return HD.BoundMethodNotes(True, "", "")
    caller = Caller(H.HttpConn("http://h.invalid"))
    svc = Service()
    out = {"Sample": Sample, "sample_obj": Sample(), "sample_method": Sample().method_one,
           "caller_obj": caller, "Caller": Caller, "caller_needs_basic": caller.needs_basic, "caller_plain": caller.plain,
           "Service": Service, "service_obj": svc, "service_fetch": svc.fetch, "service_drop": svc.drop,
           "service_listing": svc.listing, "service_store": svc.store}
    hdoc_targets._c = (HD, out)
    return out


# ---------------------------------------------------------------------------
# object specs
# ---------------------------------------------------------------------------

def decode_value(e):
    if isinstance(e, list):
        if e[0] == "d":
            return {k: decode_value(v) for k, v in e[1]}
        return [decode_value(v) for v in e[1]]
    return e


_SHARED_PRINTERS = {}


class Obj:
    """a printable object built from a spec; .render(...) -> (whole_text, lines_text)"""

    def __init__(self, spec):
        import ak.ppobj as P
        self.spec = spec
        k = spec["k"]
        self.k = k
        if k == "pp":
            if spec.get("shared"):
                # the long-lived printers of the process: ak.ppobj.pp and one JSON-mode printer
                sh = _SHARED_PRINTERS.get("mod")
                if sh is not P:
                    _SHARED_PRINTERS.clear()
                    _SHARED_PRINTERS.update({"mod": P, "json": P.PrettyPrinter(fmt_json=True), "py": P.pp})
                self.printer = _SHARED_PRINTERS["json" if spec.get("json") else "py"]
            else:
                self.printer = P.PrettyPrinter(fmt_json=bool(spec.get("json")))
            self.value = decode_value(spec["value"])
        elif k == "table" and spec.get("refmt") and spec.get("_as_final"):
            # the same records with the final format given to the constructor directly
            rf = spec["refmt"]
            self.table = tables.build(P, dict(spec["case"], cols=rf["final"]["cols"], limits=rf["final"]["limits"],
                                              limits_via="fmt", skip=[]))
        elif k == "table" and spec.get("refmt"):
            # a table with a past: printed, re-formatted (fmt setter / remove_columns), printed in between
            rf = spec["refmt"]
            a = spec["case"]
            self.table = tables.build(P, a)
            str(self.table.ch_text(no_color=not rf.get("first_colored")))
            for st_ in rf["steps"]:
                if st_[0] == "fmt":
                    b = dict(a, cols=st_[1], limits=st_[2], limits_via="fmt", no_value_path=True)
                    self.table.fmt = tables.fmt_string(b) or ""
                elif st_[0] == "remove":
                    self.table.remove_columns(list(st_[1]))
                elif st_[0] == "limits":
                    self.table.fmt.set_limits(tuple(st_[1]))
                else:
                    str(self.table.ch_text(no_color=not st_[1]))
        elif k == "table":
            self.table = tables.build(P, spec["case"])
        elif k == "record":
            R = collections.namedtuple("R", spec["fields"])
            self.record = R(*spec["record"])
            self.fmt = P.PPRecordFmt(spec["fmt"], sample_record=self.record)
        elif k == "ghist":
            self.report = build_ghist(spec.get("which", 0), spec.get("gen"))
        elif k == "hdoc":
            pass
        elif k == "confreport":
            pass
        else:
            raise ValueError(k)

    def default_palette_class(self):
        import ak.ppobj as P
        import ak.ghist as G
        return {"pp": P.PrettyPrinter.PPPalette, "table": P.PPTable.TablePalette,
                "record": P.PPRecordFmt.PPRecordPalette, "ghist": G.GHistReport.GHistPalette}.get(self.k)

    def _result(self, palette, no_color, colors_conf):
        if self.k == "pp":
            return self.printer(self.value, palette=palette, no_color=no_color, colors_conf=colors_conf)
        if self.k == "table":
            return self.table.ch_text(palette=palette, no_color=no_color, colors_conf=colors_conf)
        if self.k == "ghist":
            return self.report.ch_text(palette=palette, no_color=no_color, colors_conf=colors_conf)
        raise ValueError(self.k)

    def render(self, C, conf, no_color=False, palette_opt=None, consume="whole"):
        """conf: ColorsConfig object or None (= the global configuration in force).
        -> dict(whole=str|None, lines=str|None)"""
        out = {"whole": None, "lines": None}
        pal = None
        cc = conf
        if palette_opt in ("class", "object") and self.default_palette_class() is not None:
            pcls = self.default_palette_class()
            if palette_opt == "class":
                pal = pcls
            else:
                pal = pcls(colors_conf=conf) if conf is not None else pcls()
                cc = None
        if self.k == "record":
            res = self.fmt(self.record, palette=pal, no_color=no_color, colors_conf=cc)
            out["whole"] = str(res)
            out["lines"] = str(res.ch_text())
            return out
        if self.k == "hdoc":
            import ak.hdoc as HD
            tgt = hdoc_targets()[self.spec["target"]]
            saved = C._GLOBAL_COLORS_CONF
            try:
                if conf is not None:
                    C.set_global_colors_config(conf)
                use = C.get_global_colors_config()
                if no_color:
                    # console help takes its colours from the global configuration only
                    C.set_global_colors_config(C.ColorsConfig(no_color=True))
                hc = HD.HCommand(self.spec.get("level", 1))
                out["whole"] = hc._make_help_text(tgt)
                buf = io.StringIO()
                with contextlib.redirect_stdout(buf):
                    hc(tgt)
                out["lines"] = buf.getvalue()[:-1]
                _ = use
            finally:
                C.set_global_colors_config(saved)
            return out
        if self.k == "confreport":
            c = conf if conf is not None else C.get_global_colors_config()
            out["whole"] = c.make_report()
            out["lines"] = "\n".join(c.gen_report_lines())
            return out
        if consume in ("zip_ab", "zip_ba"):
            # the requested rendering and its opposite (coloured <-> no_color) are consumed line by line, side by side
            import itertools
            mine = self._result(pal, no_color, cc)
            other = self._result(pal, not no_color, cc)
            lines = []
            pairs = itertools.zip_longest(mine, other) if consume == "zip_ab" else itertools.zip_longest(other, mine)
            for pr in pairs:
                x = pr[0] if consume == "zip_ab" else pr[1]
                if x is not None:
                    lines.append(str(tables.line_text(C, x)))
            out["lines"] = "\n".join(lines)
            return out
        if consume in ("whole", "both_wl", "both_lw"):
            res = self._result(pal, no_color, cc)
            if consume == "both_lw":
                out["lines"] = "\n".join(str(tables.line_text(C, ln)) for ln in res)
                out["whole"] = str(res)
            else:
                out["whole"] = str(res)
                if consume == "both_wl":
                    out["lines"] = "\n".join(str(tables.line_text(C, ln)) for ln in res)
        elif consume == "lines_after_partial":
            # the result is first iterated only partly (the consumer breaks off), then iterated again from the start
            res = self._result(pal, no_color, cc)
            for n_, _ln in enumerate(res):
                if n_ >= 1:
                    break
            out["lines"] = "\n".join(str(tables.line_text(C, ln)) for ln in res)
        elif consume == "lines_kept":
            # all line objects are collected first and only then turned into text
            kept = list(self._result(pal, no_color, cc))
            out["lines"] = "\n".join(str(tables.line_text(C, ln)) for ln in kept)
        else:
            res = self._result(pal, no_color, cc)
            out["lines"] = "\n".join(str(tables.line_text(C, ln)) for ln in res)
        return out
