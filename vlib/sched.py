"""Harness-owned thread scheduler at bytecode granularity.

Worker threads run arbitrary callables; a trace function (sys.settrace in each worker) enables
per-opcode events on every frame whose code lives in a chosen source file and counts opcodes.
A schedule is a list of [thread, n]: "let this thread execute n more traced opcodes (or finish /
block), then park it". Exactly one worker runs at any time; the others are parked on their own
semaphores, so an interleaving is a pure function of the schedule.

`ShimThreading` replaces the `threading` module seen by the code under test: its Lock is
cooperative - a thread that finds the lock taken reports 'blocked' to the controller instead of
blocking the OS thread. A real lock the shim does not see makes the released thread silent; the
controller then waits `stuck_timeout` seconds, marks it stuck and schedules somebody else, so a
verdict never depends on that timeout (only the run time does).
"""
import queue
import sys
import threading as _threading

INF = 10 ** 9


class Deadlock(Exception):
    pass


class _ShimLock:
    def __init__(self, sched_ref):
        self._ref = sched_ref
        self._owner = None
        self._real = _threading.Lock()

    def acquire(self, blocking=True, timeout=-1):
        sched = self._ref.current
        me = _threading.get_ident()
        if sched is None or me not in sched.by_ident:
            return self._real.acquire(blocking, timeout)
        while self._owner is not None:
            if not blocking:
                return False
            sched.block(me)
        self._owner = me
        sched.note_lock("acquire")
        return True

    def release(self):
        sched = self._ref.current
        me = _threading.get_ident()
        if sched is None or me not in sched.by_ident:
            return self._real.release()
        self._owner = None
        sched.note_lock("release")

    def locked(self):
        return self._owner is not None or self._real.locked()

    def __enter__(self):
        self.acquire()
        return self

    def __exit__(self, *a):
        self.release()
        return False


class ShimThreading:
    """stands in for the `threading` module inside the module under test"""

    def __init__(self):
        self.current = None

    def Lock(self):
        return _ShimLock(self)

    def RLock(self):
        return _ShimLock(self)

    def __getattr__(self, name):
        return getattr(_threading, name)


class Scheduler:
    def __init__(self, shim, filename_suffix, watch_funcs=(), stuck_timeout=1.0):
        self.shim = shim
        self.suffix = filename_suffix
        self.watch = set(watch_funcs)
        self.stuck_timeout = stuck_timeout
        self.threads = []
        self.sems = []
        self.quota = []
        self.steps = []
        self.done = []
        self.errors = []
        self.by_ident = {}
        self.report = queue.Queue()
        self.trace = []          # (tid, funcname, offset) for watched functions only
        self.switches_in_watch = 0
        self.lock_events = 0
        self.stuck = set()

    # -- worker side -------------------------------------------------------
    def _park(self, tid, reason):
        self.report.put((tid, reason))
        self.sems[tid].acquire()

    def block(self, ident):
        tid = self.by_ident[ident]
        self._park(tid, "blocked")

    def note_lock(self, what):
        self.lock_events += 1

    def _mk_tracer(self, tid):
        suffix = self.suffix
        watch = self.watch

        def local(frame, event, arg):
            if event == "opcode":
                if self.quota[tid] <= 0:
                    self._park(tid, "quota")
                self.quota[tid] -= 1
                self.steps[tid] += 1
                name = frame.f_code.co_name
                if name in watch:
                    self.trace.append((tid, name, frame.f_lasti, id(frame)))
            return local

        def glob(frame, event, arg):
            if event == "call" and frame.f_code.co_filename.endswith(suffix):
                frame.f_trace_opcodes = True
                return local
            return None
        return glob

    def _worker(self, tid, fn):
        self.by_ident[_threading.get_ident()] = tid
        self.sems[tid].acquire()
        sys.settrace(self._mk_tracer(tid))
        try:
            fn()
        except BaseException as e:   # noqa
            self.errors.append((tid, e))
        finally:
            sys.settrace(None)
            self.done[tid] = True
            self.report.put((tid, "done"))

    # -- controller side ---------------------------------------------------
    def run(self, fns, schedule):
        n = len(fns)
        self.sems = [_threading.Semaphore(0) for _ in range(n)]
        self.quota = [0] * n
        self.steps = [0] * n
        self.done = [False] * n
        ready = []
        self.threads = []
        self.shim.current = self
        for tid, fn in enumerate(fns):
            t = _threading.Thread(target=self._worker, args=(tid, fn), daemon=True)
            self.threads.append(t)
            t.start()
        # wait until every worker registered its ident
        while len(self.by_ident) < n:
            _threading.Event().wait(0.0005)
        parked_blocked = set()
        full = [list(s) for s in schedule] + [[t, INF] for t in range(n)] * 3
        idle_rounds = 0
        i = 0
        try:
            while not all(self.done):
                if i >= len(full):
                    full.extend([[t, INF] for t in range(n)])
                tid, q = full[i]
                i += 1
                tid %= n
                if self.done[tid] or tid in self.stuck:
                    if self.stuck and all(self.done[t] or t in self.stuck for t in range(n)):
                        # every live thread is inside a blocking call we do not control: wait for one to surface
                        try:
                            who, reason = self.report.get(timeout=20 * self.stuck_timeout)
                        except queue.Empty:
                            raise Deadlock("all live threads are stuck on an unknown blocking primitive")
                        self.stuck.discard(who)
                    continue
                before = self.steps[tid]
                self.quota[tid] = q
                self.sems[tid].release()
                reason = self._await(tid)
                if reason == "blocked" and self.steps[tid] == before:
                    parked_blocked.add(tid)
                    idle_rounds += 1
                    if idle_rounds > 8 * n and all(self.done[t] or t in parked_blocked or t in self.stuck
                                                   for t in range(n)):
                        raise Deadlock("all live threads are blocked on locks")
                else:
                    parked_blocked.discard(tid)
                    idle_rounds = 0
        finally:
            self.shim.current = None
            # release anything still parked so daemon threads can die
            for tid in range(n):
                if not self.done[tid]:
                    self.quota[tid] = INF
                    self.sems[tid].release()
        for t in self.threads:
            t.join(timeout=5)

    def _await(self, tid):
        while True:
            try:
                who, reason = self.report.get(timeout=self.stuck_timeout)
            except queue.Empty:
                self.stuck.add(tid)
                return "stuck"
            if who in self.stuck and who != tid:
                # a thread that was stuck on a real primitive got through and parked itself properly
                self.stuck.discard(who)
                continue
            if who == tid:
                self.stuck.discard(tid)
                return reason
            # report from an unexpected thread: keep it parked, go on waiting
            continue

    def interleaving_key(self):
        """sequence of (thread, function, offset) in watched functions"""
        return [[t, f, o] for t, f, o, _ in self.trace]

    def interrupted_watch(self):
        """number of watched-function calls whose opcodes are interleaved with watched opcodes of
        another thread (i.e. a call that was preempted while another thread ran the same code)"""
        first, last = {}, {}
        for i, (t, f, o, fid) in enumerate(self.trace):
            first.setdefault((t, fid), i)
            last[(t, fid)] = i
        n = 0
        for (t, fid), a in first.items():
            b = last[(t, fid)]
            if any(self.trace[j][0] != t for j in range(a, b + 1)):
                n += 1
        return n
