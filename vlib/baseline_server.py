"""Pristine baseline renderer for C10.

Started as a brand-new interpreter (`python -m vlib.baseline_server`), it imports the package under test but never
renders anything itself. For every request (one JSON line on stdin) it forks a child; the child builds the object and
the configuration from their specs, renders, and reports the strings back; the child then exits. Every baseline is
therefore produced by a process with no rendering history at all: no palette caches, no enum cell caches, no synced
palettes, no previously registered components.

request : {"obj": <object spec>, "conf": <config spec> | null, "global": bool, "no_color": bool, "palette": opt}
response: {"whole": str|null, "lines": str|null} or {"error": "..."}
"""
import json
import os
import sys
import traceback


def handle(req):
    import ak.color as C
    from vlib import render_objs as RO
    conf = None
    if req.get("conf") is not None:
        conf = RO.build_config(C, req["conf"])
    if req.get("global") and conf is not None:
        C.set_global_colors_config(conf)
        use = None
    else:
        use = conf
    o = RO.Obj(req["obj"])
    return o.render(C, use, no_color=bool(req.get("no_color")), palette_opt=req.get("palette"),
                    consume="both_wl")


def main():
    here = os.path.dirname(os.path.dirname(os.path.abspath(__file__)))
    sys.path.insert(0, here)
    from vlib import core
    core.use_repo()
    import ak.color   # noqa: imported, nothing rendered
    import ak.ppobj   # noqa
    import ak.ghist   # noqa
    import ak.hdoc    # noqa
    import ak.conn_http      # noqa
    import ak.mcaller_http   # noqa
    from vlib import render_objs, fakehttp   # noqa: builders only - importing renders nothing
    fakehttp.speedup_ssl()
    out = sys.stdout
    for line in sys.stdin:
        line = line.strip()
        if not line:
            continue
        req = json.loads(line)
        r, w = os.pipe()
        pid = os.fork()
        if pid == 0:
            try:
                os.close(r)
                try:
                    res = handle(req)
                except BaseException as e:   # noqa
                    tb = traceback.extract_tb(e.__traceback__)
                    last = tb[-1] if tb else None
                    res = {"error": traceback.format_exc()[-1500:],
                           "in_package": bool(last and "/ak/" in last.filename.replace("\\", "/")),
                           "where": last.name if last else "?", "etype": type(e).__name__}
                with os.fdopen(w, "w") as f:
                    f.write(json.dumps(res))
            finally:
                os._exit(0)
        os.close(w)
        with os.fdopen(r) as f:
            data = f.read()
        os.waitpid(pid, 0)
        out.write((data or json.dumps({"error": "child produced nothing"})) + "\n")
        out.flush()


if __name__ == "__main__":
    main()
