"""Running LLParser.parse under a deterministic divergence monitor (no wall clock).

The monitor is a sys.setprofile hook that watches calls of the parser's inner push helper: it counts
pushes and reads the depth of the parse stack. Depth beyond (#symbols of the internal grammar) *
(#tokens + 2) + 2 proves that some (symbol, token position) pair is on the stack twice; the parser being
deterministic, the stack then grows without bound -> DIVERGED. A plain push budget that runs out without
that proof is INCONCLUSIVE (exponential backtracking is legal), never a violation.
"""
import sys

from vlib.guard import Diverged


class _Budget(BaseException):
    pass


def parse_guarded(L, parser, text, ntok, budget=400000, **kw):
    """-> (kind, payload); kind in tree | parsing_error | lexical_error | diverged | inconclusive | exception"""
    nsym = len(getattr(parser, "prods_map", {})) + 2
    bound = nsym * (ntok + 2) + 2
    st = {"push": 0, "maxdepth": 0, "calls": 0}

    def prof(frame, event, arg):
        if event != "call":
            return
        code = frame.f_code
        name = code.co_name
        if name == "_put_on_stack":
            st["push"] += 1
            ps = frame.f_locals.get("parse_stack")
            if ps is not None:
                d = len(ps)
                if d > st["maxdepth"]:
                    st["maxdepth"] = d
                if d > bound:
                    sys.setprofile(None)
                    raise Diverged(f"parse stack depth {d} > pigeonhole bound {bound} "
                                   f"({nsym - 2} internal symbols, {ntok} tokens)")
            if st["push"] > budget:
                sys.setprofile(None)
                raise _Budget()
        elif name == "__init__" and code.co_filename.endswith("llparser.py"):
            st["calls"] += 1
            if st["calls"] > 40 * budget:
                sys.setprofile(None)
                raise _Budget()
    old = sys.getprofile()
    sys.setprofile(prof)
    try:
        try:
            t = parser.parse(text, **kw)
        finally:
            sys.setprofile(old)
        return "tree", t, st
    except L.ParsingError as e:
        return "parsing_error", e, st
    except L.LexicalError as e:
        return "lexical_error", e, st
    except Diverged as e:
        return "diverged", str(e), st
    except _Budget:
        return "inconclusive", f"push budget {budget} exhausted at depth {st['maxdepth']}", st
    except Exception as e:   # noqa
        return "exception", e, st
