"""Grammar kit for the parser checks (C01-C05): generators, layout renderer and independent
textbook analyses (nullable / FIRST / FOLLOW / predict sets, left-recursion graph, chart recogniser,
LL(1) predictive parser). Nothing here imports the package under test.

A grammar case is plain data:
  {"prods": {name: [[sym, ...], ...]}, "start": name, "terms": [terminal names used], "tok": {...tokenizer config...}}
"""
from hypothesis import strategies as st

# ---------------------------------------------------------------------------
# tokenizer family
# ---------------------------------------------------------------------------

TOKENIZER = r"""
    (?P<SPACE>\s+)
    |(?P<COMMENT>\#.*)
    |(?P<COMMENT_ML>/\*)
    |(?P<MLSTR>\'\'\')
    |(?P<WORD>[a-zA-Z_]+)
    |(?P<NUM>[0-9]+)
    |(?P<PLUS>\+)
    |(?P<COMMA>,)
    |(?P<SEMI>;)
    |(?P<LPAR>\()
    |(?P<RPAR>\))
    |(?P<LBR>\[)
    |(?P<RBR>\])
    |(?P<LCB>\{)
    |(?P<RCB>\})
    |(?P<COLON>:)
"""
# two span (multi-line) token types: the skipped comment and MLSTR, a triple-quoted string that is an ordinary terminal
SPAN_MATCHERS = {"COMMENT_ML": r"(?P<END_COMMENT>(\*[^/]|[^*])*)\*/",
                 "MLSTR": r"(?P<END_MLSTR>('{0,2}[^'])*)'''"}
Q3 = "'" * 3
MLSTR_LEXEMES = [Q3 + "a" + Q3, Q3 + "x\ny" + Q3, Q3 + "\n\n z " + Q3, Q3 + " " + Q3, Q3 + "p q\n  r\n" + Q3,
                 Q3 + "it's\n" + Q3]
PUNCT = {"PLUS": "+", "COMMA": ",", "SEMI": ";", "LPAR": "(", "RPAR": ")", "LBR": "[", "RBR": "]", "LCB": "{",
         "RCB": "}", "COLON": ":"}
KEYWORDS = {"if": "IF", "end": "END_KW", "do": "DO"}
WORDS = ["a", "b", "cc", "foo", "x_y", "Zed", "iff", "ends"]     # never equal to a keyword
NUMS = ["0", "7", "42", "007"]


def tok_config(synonyms, keywords):
    """-> kwargs for LLParser / _Tokenizer and the map abstract token kind -> terminal name"""
    syn = {"COMMENT_ML": "COMMENT"}
    names = {"WORD": "WORD", "NUM": "NUM", "MLSTR": "MLSTR"}
    for grp, ch in PUNCT.items():
        if synonyms:
            syn[grp] = ch
            names[grp] = ch
        else:
            names[grp] = grp
    kw = {}
    if keywords:
        for lex, name in KEYWORDS.items():
            kw[("WORD", lex)] = name
            names["KW_" + lex] = name
    return {"synonyms": syn, "keywords": kw or None, "span_matchers": SPAN_MATCHERS}, names


def lexemes_for(kind):
    """concrete lexemes of an abstract token kind"""
    if kind == "WORD":
        return WORDS
    if kind == "NUM":
        return NUMS
    if kind == "MLSTR":
        return MLSTR_LEXEMES
    if kind.startswith("KW_"):
        return [kind[3:]]
    return [PUNCT[kind]]


# ---------------------------------------------------------------------------
# second tokenizer family + independent reference tokenizer (C01 part token_stream)
# ---------------------------------------------------------------------------
# several keyword source types whose lexeme sets overlap: LABEL (a word directly followed by ':'), ATWORD (a word directly
# behind '@'), WORD and NUM. Patterns in alternation order, each one a complete alternative (so "first alternative that
# matches at the position" is exactly Python's alternation semantics for this family).
TOKENIZER2_GROUPS = [
    ("SPACE", r"\s+"), ("COMMENT", r"\#.*"),
    ("LABEL", r"[a-zA-Z_]+(?=:)"), ("ATWORD", r"(?<=@)[a-zA-Z_]+"), ("WORD", r"[a-zA-Z_]+"),
    ("NUM", r"[0-9]+"), ("AT", r"@"), ("COLON", r":"), ("COMMA", r","), ("SEMI", r";"), ("PLUS", r"\+"),
]
TOKENIZER2 = "\n".join(("    |" if i else "    ") + "(?P<%s>%s)" % (n, r) for i, (n, r) in enumerate(TOKENIZER2_GROUPS))
TOK2_SYNONYMS = [{}, {"COMMA": ",", "SEMI": ";"}, {"ATWORD": "WORD"}, {"LABEL": "WORD", "PLUS": "+"}]
TOK2_KEYWORD_SETS = [
    {},
    {("WORD", "if"): "IF", ("WORD", "end"): "END"},
    {("WORD", "if"): "IF", ("LABEL", "end"): "END_LABEL", ("NUM", "007"): "BOND"},
    {("LABEL", "if"): "IF_LABEL", ("ATWORD", "end"): "AT_END", ("WORD", "do"): "DO", ("NUM", "0"): "ZERO"},
    {("WORD", "if"): "IF", ("ATWORD", "if"): "AT_IF", ("LABEL", "do"): "DO_LABEL"},
]


def ref_tokenize2(text, synonyms, keywords):
    """independent tokenization of `text` (no newlines inside tokens) -> [(name, value)] incl. SPACE / COMMENT,
    or None when some character matches no pattern"""
    import re
    pats = [(n, re.compile(r)) for n, r in TOKENIZER2_GROUPS]
    out = []
    for line in text.split("\n"):
        col = 0
        while col < len(line):
            for n, rx in pats:
                m = rx.match(line, col)
                if m is not None and m.end() > col:
                    break
            else:
                return None
            value = m.group(0)
            name = synonyms.get(n, n)
            name = keywords.get((name, value), name)
            out.append((name, value))
            col = m.end()
    return out


TERMINAL_KINDS = ["WORD", "NUM", "PLUS", "COMMA", "SEMI", "LPAR", "RPAR", "KW_if", "KW_end", "KW_do"]


# ---------------------------------------------------------------------------
# analyses
# ---------------------------------------------------------------------------

class Grammar:
    def __init__(self, prods, start, terminals=None):
        self.prods = {k: [tuple(a) for a in v] for k, v in prods.items()}
        self.start = start
        self.nts = set(self.prods)
        self.terms = set(terminals) if terminals is not None else {
            s for alts in self.prods.values() for a in alts for s in a if s not in self.prods}
        self._nullable = None
        self._first = None
        self._follow = None

    def nullable(self):
        if self._nullable is None:
            nl = set()
            changed = True
            while changed:
                changed = False
                for a, alts in self.prods.items():
                    if a not in nl and any(all(s in nl for s in alt) for alt in alts):
                        nl.add(a)
                        changed = True
            self._nullable = nl
        return self._nullable

    def first(self):
        if self._first is None:
            nl = self.nullable()
            f = {a: set() for a in self.nts}
            changed = True
            while changed:
                changed = False
                for a, alts in self.prods.items():
                    for alt in alts:
                        for s in alt:
                            add = {s} if s in self.terms else f[s]
                            if not add <= f[a]:
                                f[a] |= add
                                changed = True
                            if s in self.terms or s not in nl:
                                break
            self._first = f
        return self._first

    def first_of_seq(self, seq):
        """-> (set of terminals, nullable?)"""
        nl, f = self.nullable(), self.first()
        out = set()
        for s in seq:
            if s in self.terms:
                out.add(s)
                return out, False
            out |= f[s]
            if s not in nl:
                return out, False
        return out, True

    def follow(self, end="$"):
        if self._follow is None:
            fo = {a: set() for a in self.nts}
            fo[self.start].add(end)
            changed = True
            while changed:
                changed = False
                for a, alts in self.prods.items():
                    for alt in alts:
                        for i, s in enumerate(alt):
                            if s in self.terms:
                                continue
                            fs, nl = self.first_of_seq(alt[i + 1:])
                            add = set(fs)
                            if nl:
                                add |= fo[a]
                            if not add <= fo[s]:
                                fo[s] |= add
                                changed = True
            self._follow = fo
        return self._follow

    def predict(self, a, alt):
        fs, nl = self.first_of_seq(alt)
        return fs | (self.follow()[a] if nl else set())

    def is_ll1(self):
        for a, alts in self.prods.items():
            seen = set()
            for alt in alts:
                p = self.predict(a, alt)
                if p & seen:
                    return False
                seen |= p
        return True

    def left_recursion_cycle(self):
        """edge A->B iff A has an alternative alpha B beta with alpha =>* empty; -> True iff the graph has a cycle"""
        nl = self.nullable()
        edges = {a: set() for a in self.nts}
        for a, alts in self.prods.items():
            for alt in alts:
                for s in alt:
                    if s in self.terms:
                        break
                    edges[a].add(s)
                    if s not in nl:
                        break
        color = {}

        def dfs(u):
            color[u] = 1
            for v in edges[u]:
                if color.get(v) == 1:
                    return True
                if v not in color and dfs(v):
                    return True
            color[u] = 2
            return False
        return any(u not in color and dfs(u) for u in sorted(self.nts))

    def productive(self):
        ok = set()
        changed = True
        while changed:
            changed = False
            for a, alts in self.prods.items():
                if a not in ok and any(all(s in self.terms or s in ok for s in alt) for alt in alts):
                    ok.add(a)
                    changed = True
        return ok

    def min_len(self):
        INF = 10 ** 6
        ml = {a: INF for a in self.nts}
        changed = True
        while changed:
            changed = False
            for a, alts in self.prods.items():
                for alt in alts:
                    n = sum(1 if s in self.terms else ml[s] for s in alt)
                    if n < ml[a]:
                        ml[a] = n
                        changed = True
        return ml

    def recognize(self, toks):
        """chart recogniser: is the terminal-name sequence a sentence of the grammar? (fixpoint, any grammar)"""
        n = len(toks)
        chart = set()   # (sym, i, j)
        for i, t in enumerate(toks):
            chart.add((t, i, i + 1))
        changed = True
        while changed:
            changed = False
            for a, alts in self.prods.items():
                for alt in alts:
                    for i in range(n + 1):
                        # positions reachable after matching alt[:k] starting at i
                        reach = {i}
                        for s in alt:
                            nxt = set()
                            for p in reach:
                                for q in range(p, n + 1):
                                    if (s, p, q) in chart:
                                        nxt.add(q)
                            reach = nxt
                            if not reach:
                                break
                        for j in reach:
                            if (a, i, j) not in chart:
                                chart.add((a, i, j))
                                changed = True
        return (self.start, 0, n) in chart

    def ll1_parse(self, toks, end="$"):
        """predictive parse with own table; -> tree (name, [children]) / (terminal, index) or None"""
        table = {}
        for a, alts in self.prods.items():
            for alt in alts:
                for t in self.predict(a, alt):
                    if (a, t) in table:
                        raise ValueError("grammar is not LL(1)")
                    table[(a, t)] = alt
        toks = list(toks) + [end]
        pos = [0]

        def parse(sym):
            if sym in self.terms:
                if toks[pos[0]] != sym:
                    return None
                pos[0] += 1
                return (sym, pos[0] - 1)
            alt = table.get((sym, toks[pos[0]]))
            if alt is None:
                return None
            kids = []
            for s in alt:
                k = parse(s)
                if k is None:
                    return None
                kids.append(k)
            return (sym, kids)
        t = parse(self.start)
        if t is None or pos[0] != len(toks) - 1:
            return None
        return t


# ---------------------------------------------------------------------------
# generators
# ---------------------------------------------------------------------------

NAME_POOLS = [
    ["E", "A", "B", "C", "D", "F"],
    ["E", "Z", "Y", "X", "W", "V"],
    ["S", "Item", "Aa", "ab", "B_1", "Tail"],
    ["M", "Zz", "A", "Mm", "K", "Q"],
    ["ARGS", "ITEMS", "X_", "S_S", "TS", "E9"],      # names ending in 'S', '_' or a digit (what helper-symbol suffixes look like)
]


@st.composite
def st_grammar(draw, max_nt=5, max_alts=4, max_len=4, back_edges="guarded", n_terms=None):
    """abstract grammar over N0.. and terminal kinds; N0 is the start symbol.
    back_edges: 'guarded' - a reference to an earlier-or-same non-terminal only behind a terminal (never
    left-recursive); 'free' - anywhere (cycles likely)."""
    nnt = draw(st.integers(1, max_nt))
    nts = ["N%d" % i for i in range(nnt)]
    nterm = n_terms or draw(st.integers(1, 4))
    terms = draw(st.permutations(TERMINAL_KINDS))[:nterm]
    prods = {}
    for i, a in enumerate(nts):
        alts = []
        n_alts = draw(st.integers(1, max_alts))
        if draw(st.integers(0, 14)) == 0:
            n_alts = draw(st.integers(6, 7))       # more than 5 alternatives in one group

        def sym(guarded, i=i):
            later = nts[i + 1:]
            if guarded and back_edges == "guarded":
                pool = list(terms) * 2 + later * 2
            else:
                pool = list(terms) * 2 + nts
            return draw(st.sampled_from(pool))

        def fresh(minlen=0):
            n = draw(st.integers(minlen, max_len))
            out = []
            seen_term = False
            for _ in range(n):
                s = sym(not seen_term)
                out.append(s)
                if s in terms:
                    seen_term = True
            return out
        big = n_alts >= 6
        for k in range(n_alts):
            shape = draw(st.sampled_from(["fresh", "fresh", "copy_extend", "copy_extend", "prefix_of_prev",
                                          "same_first", "empty", "copy_any"]))
            if big and k > 0:
                shape = draw(st.sampled_from(["same_first", "same_first", "copy_extend", "prefix_of_prev"]))
                if shape == "same_first" and alts and alts[-1]:
                    shape = "same_first_last"
            if not alts or shape == "fresh":
                alt = fresh()
            elif shape == "empty":
                alt = []
            else:
                prev = alts[draw(st.integers(0, len(alts) - 1))] if shape in ("same_first", "copy_any") else alts[-1]
                if shape == "copy_any":
                    # common prefix with an alternative that is NOT the adjacent one (adjacent ones get factorised;
                    # these meet only in the parse table)
                    if len(alts) >= 2:
                        cands = [x for x in alts[:-1] if x and x[0] in nts] or alts[:-1]
                        prev = cands[draw(st.integers(0, len(cands) - 1))]
                    shape = "copy_extend"
                if shape == "same_first_last":
                    shape = "same_first"
                if not prev:
                    alt = fresh(1)
                elif shape == "copy_extend":
                    cut = draw(st.integers(1, len(prev)))
                    seen = any(s in terms for s in prev[:cut])
                    ext = []
                    for _ in range(draw(st.integers(0, 2))):
                        s = sym(not seen)
                        ext.append(s)
                        seen = seen or s in terms
                    alt = list(prev[:cut]) + ext
                elif shape == "prefix_of_prev":
                    alt = list(prev[:draw(st.integers(0, len(prev) - 1))]) if len(prev) > 0 else []
                else:   # same_first
                    seen = prev[0] in terms
                    ext = []
                    for _ in range(draw(st.integers(0, max_len - 1))):
                        s = sym(not seen)
                        ext.append(s)
                        seen = seen or s in terms
                    alt = [prev[0]] + ext
            if alt not in alts:
                alts.append(alt)
        prods[a] = alts
    # make some non-terminals nullable after the fact (first symbols of earlier alternatives may refer to them)
    lead = {alt[0] for alts in prods.values() for alt in alts if alt and alt[0] in prods}
    for a in nts[1:]:
        if [] not in prods[a] and draw(st.integers(0, 1 if a in lead else 4)) == 0:
            prods[a].insert(draw(st.integers(0, len(prods[a]))), [])
    return {"prods": prods, "start": "N0", "terms": list(terms)}


def rename(g, pool_idx, perm, tok_names):
    """abstract grammar -> concrete names. perm: permutation of the name pool indexes"""
    pool = NAME_POOLS[pool_idx % len(NAME_POOLS)]
    nts = sorted(g["prods"], key=lambda s: int(s[1:]))
    mp = {}
    for i, a in enumerate(nts):
        mp[a] = pool[perm[i] % len(pool)] if i < len(pool) else "NT%d" % i
    # make names unique
    used = set()
    for a in nts:
        n = mp[a]
        while n in used:
            n = n + "x"
        mp[a] = n
        used.add(n)
    for t in g["terms"]:
        mp[t] = tok_names[t]
    prods = {mp[a]: [[mp[s] for s in alt] for alt in alts] for a, alts in g["prods"].items()}
    return {"prods": prods, "start": mp[g["start"]], "terms": [mp[t] for t in g["terms"]],
            "kinds": {mp[t]: t for t in g["terms"]}}


def sample_sentence(draw, G, budget=12):
    """random leftmost derivation; -> list of terminal names or None if the start symbol is unproductive"""
    INF = 10 ** 6
    # minimal derivation height per symbol: once the depth budget is used up, only alternatives of minimal height
    # are taken, so the recursion strictly descends (also for cyclic grammars)
    h = {a: INF for a in G.nts}
    changed = True
    while changed:
        changed = False
        for a, alts in G.prods.items():
            for alt in alts:
                v = 1 + max([h[s] for s in alt if s not in G.terms], default=0)
                if v < h[a]:
                    h[a] = v
                    changed = True
    if h[G.start] >= INF:
        return None
    out = []

    def height(alt):
        return 1 + max([h[s] for s in alt if s not in G.terms], default=0)

    def expand(sym, depth):
        if sym in G.terms:
            out.append(sym)
            return
        alts = [a for a in G.prods[sym] if height(a) < INF]
        if depth <= 0 or len(out) > budget:
            best = min(height(a) for a in alts)
            alts = [a for a in alts if height(a) == best]
        alt = alts[draw(st.integers(0, len(alts) - 1))]
        for s in alt:
            expand(s, depth - 1)
    expand(G.start, draw(st.integers(1, 6)))
    return out


# ---------------------------------------------------------------------------
# layout: token list -> text with exact expected positions
# ---------------------------------------------------------------------------

def render(tokens, seps, as_list=False):
    """tokens: [(terminal_name, lexeme)]; seps: list (len(tokens)+1) of separator strings made of blanks, newlines,
    '#comment' pieces and '/* ... */' pieces (generated by st_sep). Returns (text, positions) where positions[i] =
    ((line, col), (line, col)) 1-based, exclusive end, of token i."""
    line, col = 1, 1
    parts = []
    pos = []

    def advance(s):
        nonlocal line, col
        for ch in s:
            if ch == "\n":
                line += 1
                col = 1
            else:
                col += 1
    for i, (name, lex) in enumerate(tokens):
        parts.append(seps[i])
        advance(seps[i])
        start = (line, col)
        parts.append(lex)
        advance(lex)
        pos.append((start, (line, col)))
    parts.append(seps[len(tokens)])
    text = "".join(parts)
    return text, pos


def need_space(a, b):
    """must two adjacent lexemes be separated to stay two tokens?"""
    if not a or not b:
        return False
    wa = a[-1].isalnum() or a[-1] == "_"
    wb = b[0].isalnum() or b[0] == "_"
    return wa and wb


def st_sep(first=False, last=False, multiline=True, comments=True):
    blanks = st.sampled_from(["", " ", "  ", "\t", " \t ", " ", "  ", "\x0c", "\x0b ", " \r", "\x1c", "\x85", "\u2028", "\u00a0"])
    pieces = [blanks, blanks, st.just(" ")]
    if multiline:
        pieces += [st.sampled_from(["\n", "\n\n", " \n", "\n  ", "  \n\n   ", "\n\t"])]
    if comments:
        pieces += [st.sampled_from([" # note\n", "#c\n ", " /* x */ ", "/**/", " /* multi\n line */ ", "/* a\n\n b */\n", "/* 1\n 2\n3 */",
                                    # comments whose text holds characters that str.splitlines() treats as line ends
                                    " # hidden \x0c a 1 ;\n", "#x\u2028b + 2\n", " # k\x85 ( cc\n", "/* p \x1c q \r r */", "# \r foo\n"])
                   if multiline else st.sampled_from([" /* x */ ", "/**/"])]
    return st.lists(st.one_of(*pieces), min_size=0, max_size=3).map("".join)


@st.composite
def st_layout(draw, tokens, multiline=True, comments=True):
    """choose separators so that the token list is preserved; -> seps"""
    seps = []
    n = len(tokens)
    for i in range(n + 1):
        s = draw(st_sep(multiline=multiline, comments=comments))
        if 0 < i < n and need_space(tokens[i - 1][1], tokens[i][1]) and s == "":
            s = " "
        # a '#' comment swallows the rest of its line: it must be followed by a newline (guaranteed by the pieces)
        seps.append(s)
    return seps
