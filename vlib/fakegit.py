"""In-memory git repository for the history-report checks (C06, C07, C10).

Own implementation (not tests/mock_git.py, whose timestamps and authors call `random`): everything is a
function of the generated case. Exposes exactly the surface ak.ghist uses: remotes[name].refs, commit(hexsha),
iter_refs(*prefixes), git_dir; commits with hexsha / parents / message / committed_date / author.name / tree.
"""
import hashlib
import io

BASE_TIME = 1_700_000_000
AUTHORS = ["V. Arnold", "Nineteen Chars Name", "Richard Feynman", "Twenty Two Characters.", "Eighteen Chars Nam",
           "A Very Long Author Name Indeed", "Seventeen Chars N", "J. Morrison", "Norris, Chuck", "Arnold Sh."]


class Blob:
    def __init__(self, contents):
        self.data = contents.encode()
        self.hexsha = hashlib.sha1(self.data).hexdigest()

    @property
    def data_stream(self):
        return io.BytesIO(self.data)


class Tree:
    def __init__(self, files):
        self.files = {p: Blob(c) for p, c in files.items()}

    def __truediv__(self, path):
        return self.files[path]      # KeyError when absent, like GitPython


class Author:
    def __init__(self, name):
        self.name = name


class Commit:
    def __init__(self, repo_name, idx, message, ts, files):
        self.idx = idx
        self.hexsha = hashlib.sha1(f"{repo_name}:{idx}".encode()).hexdigest()
        self.parents = []
        self.message = message
        self.committed_date = BASE_TIME + ts
        self.author = Author(AUTHORS[idx % len(AUTHORS)])
        self.tree = Tree(files)

    def __repr__(self):
        return f"<c{self.idx} {self.message!r}>"


class Ref:
    def __init__(self, name, commit):
        self.name = name
        self.commit = commit
        self.hexsha = commit.hexsha


class Remote:
    def __init__(self, refs, repo=None):
        self.refs = refs
        self._repo = repo

    def fetch(self):
        """'git fetch': whatever was staged with FakeRepo.stage() arrives (new commits, moved heads, new tags)"""
        if self._repo is not None and self._repo._staged is not None:
            spec, self._repo._staged = self._repo._staged, None
            self._repo._load(spec)
        return []


class FakeRepo:
    """spec: {"name": str, "commits": [{"parents": [idx], "msg": str, "ts": int, "files": {path: text}}],
              "branches": {branch_name: idx}, "tags": [[tag_name, idx], ...]}"""

    def __init__(self, spec):
        self.name = spec["name"]
        self.git_dir = "/fake/" + self.name
        self.working_dir = "/fake/" + self.name
        self._staged = None
        self.remotes = {"origin": Remote([], self)}
        self._load(spec)

    def stage(self, spec):
        """the state the remote will have at the next fetch (a superset of the present one)"""
        self._staged = spec

    def _load(self, spec):
        self.commits = []
        for i, c in enumerate(spec["commits"]):
            self.commits.append(Commit(self.name, i, c["msg"], c.get("ts", i), c.get("files", {})))
        for i, c in enumerate(spec["commits"]):
            self.commits[i].parents = [self.commits[p] for p in c["parents"]]
        self.by_hexsha = {c.hexsha: c for c in self.commits}
        self.refs = {}
        for bname, idx in spec["branches"].items():
            self.refs["refs/remotes/origin/" + bname] = self.commits[idx]
        for tag, idx in spec.get("tags", []):
            self.refs["refs/tags/" + tag] = self.commits[idx]
        rrefs = [Ref(n[len("refs/remotes/"):], c) for n, c in sorted(self.refs.items())
                 if n.startswith("refs/remotes/origin/")]
        self.remotes["origin"].refs = rrefs

    def commit(self, hexsha):
        return self.by_hexsha[hexsha]

    def iter_refs(self, *prefixes):
        for n, c in self.refs.items():
            if any(n.startswith(p) for p in prefixes):
                yield n, c.hexsha


def make_project_repo_class(G, components_locations=None, name="FakeProjectRepo"):
    """ProjectRepo subclass reading 'major.minor' from VERSION and 'comp=1.2.3' lines from DEPENDS-like files"""
    class _Repo(G.ProjectRepo):
        _SAVED_BUILD_NUM_SOURCES = ["VERSION"]
        _COMPONENTS_VERSIONS_LOCATIONS = dict(components_locations or {})

        def _read_saved_build_num_from_file(self, blob, path):
            data = blob.data_stream.read().decode().strip()
            nums = [int(x) for x in data.split(".")]
            while len(nums) < 3:
                nums.append(None)
            return G.BuildNumData(*nums[:3])

        @classmethod
        def parse_buildtag(cls, tag_str):
            """the documented hook: this project also knows build tags of the form ok/<branch>/<n>"""
            import re
            m = re.match(r"ok/(?P<branch>.*)/(?P<build>\d+)$", tag_str)
            if m:
                return G.BuildNumData(None, None, None, build=int(m.group("build")), branch_str=m.group("branch"))
            return super().parse_buildtag(tag_str)

        def read_components_from_file(self, v_file_path, blob):
            out = {}
            for line in blob.data_stream.read().decode().split("\n"):
                if "=" in line:
                    k, v = line.split("=", 1)
                    out[k.strip()] = tuple(int(x) for x in v.strip().split("."))
            return out
    _Repo.__name__ = name
    return _Repo


# ---------------------------------------------------------------------------
# graph helpers for the reference models
# ---------------------------------------------------------------------------

def ancestors_or_self(parents):
    """parents: list of parent-index lists (topologically ordered) -> list of sets"""
    anc = []
    for i, ps in enumerate(parents):
        s = {i}
        for p in ps:
            s |= anc[p]
        anc.append(s)
    return anc


def branch_sort_key(name):
    """numeric-aware sort of release branch names, master/main last"""
    if name in ("master", "main"):
        return (1, [])
    parts = name.replace("/", " ").replace(".", " ").replace("-", " ").replace("_", " ").split()
    key = []
    for p in parts:
        key.append((0, int(p), "") if p.isdigit() else (1, 0, p))
    return (0, key)


def extract_listing(rgraph):
    """-> [(branch_name, [(label, build_commit_idx | None, [listed commit idx...]), ...]), ...] in report order"""
    out = []
    for rb in rgraph.branches:
        builds = []
        for b in rb.get_rbuilds_list():
            bn = b.build_num
            if bn.is_fake_not_merged():
                label = "not merged"
            elif bn.is_fake_not_built():
                label = "not built"
            else:
                label = str(bn)
            builds.append((label, None if b.rcommit is None else b.rcommit.commit.idx,
                           [rc.commit.idx for rc in b.get_printable_rcommits()], b))
        out.append((rb.branch_name, builds))
    return out
